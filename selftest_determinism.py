#!/usr/bin/env python3
"""./check selftest-determinism: every engine is run twice per seed in separate processes, at worker counts 1 and 16,
and the evidence (event counts, fault counters, distinct interleavings, probes, samples) must be identical except for
timing fields. A violation replay would be a function of (seed, code) only."""
import json, subprocess, sys, os, tempfile
DIR=os.path.dirname(os.path.abspath(__file__))
CASES={"C01":150,"C02":120,"C03":10,"C04":90,"C05":200,"C06":120,"C11":200,"C12":60,"C14":600,"C15":600,"C18":80,"C19":8}
DROP={"wall_s","runs_per_hour","seeds_per_hour","compile_ms_total","reads_per_hour","histories_per_hour","cases_per_hour"}
def norm(x):
    if isinstance(x, dict):
        return {k:norm(v) for k,v in sorted(x.items()) if k not in DROP}
    if isinstance(x, list):
        return [norm(v) for v in x]
    return x
seeds=[20260923, 1, 7] if len(sys.argv)<2 else [int(a) for a in sys.argv[1:]]
bad=0; total=0
for pid,n in CASES.items():
    for seed in seeds:
        outs=[]
        for threads in (1,16):
            ev=tempfile.mktemp(suffix=".json")
            r=subprocess.run([f"{DIR}/check", pid, "quick", "--seed", str(seed), "--cases", str(n), "--threads", str(threads), "--evidence", ev, "--replay-dir", "/tmp/selftest_replays"], capture_output=True, text=True)
            if r.returncode not in (0,):
                print(f"{pid} seed={seed} threads={threads}: exit {r.returncode}\n{r.stdout[-500:]}")
                bad+=1
            try:
                outs.append(norm(json.load(open(ev))))
            except Exception as e:
                outs.append({"error":str(e)})
            if os.path.exists(ev): os.remove(ev)
        total+=1
        if outs[0]!=outs[1]:
            bad+=1
            a,b=json.dumps(outs[0],sort_keys=True),json.dumps(outs[1],sort_keys=True)
            i=next((i for i,(x,y) in enumerate(zip(a,b)) if x!=y), 0)
            print(f"NONDETERMINISM {pid} seed={seed}: evidence differs between 1 and 16 workers near: ...{a[max(0,i-150):i+150]} <> {b[max(0,i-150):i+150]}")
        else:
            print(f"ok {pid} seed={seed}")
print(f"determinism self-test: {total} (engine, seed) pairs, {bad} problems")
sys.exit(0 if bad==0 else 2)

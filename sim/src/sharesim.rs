//! sharesim (C14): a dealer shares a typed value among three simulated parties over the simulated
//! transport; any one party is lost; the two survivors reconstruct from the slots they are
//! documented to hold. Plus two-world distribution tests of a single party's bundle over seeds.

use crate::harness::{run_cases, write_evidence, write_replay, Args, EvidenceOut, Tier};
use crate::prfsim::{chi2_exceeds, valid_encoding};
use crate::rng::Rng;
use crate::trisim::guarded;
use crate::vals::{add_values, as_vec, biased_value, dec, enc, seed_from_u64, typed_eq};
use ciphercore_base::data_types::{array_type, named_tuple_type, scalar_type, tuple_type, vector_type, ScalarType, Type, BIT, UINT64, UINT8};
use ciphercore_base::data_values::Value;
use ciphercore_base::mpc::utils::share_vector;
use ciphercore_base::random::PRNG;
use ciphercore_base::typed_value::TypedValue;
use ciphercore_base::typed_value_secret_shared::replicated_shares::ReplicatedShares;
use ciphercore_base::typed_value_secret_shared::TypedValueSecretShared;
use serde::{Deserialize, Serialize};
use std::collections::BTreeMap;

#[derive(Clone, Debug, Serialize, Deserialize)]
pub struct ShareReplay {
    pub property: String,
    pub engine: String,
    pub seed: u64,
    pub case_index: u64,
    pub t: Type,
    pub secret: Value,
    pub dealer_seed: u64,
    pub api: String,
    pub lost_party: usize,
    pub class: String,
    pub detail: String,
}

fn gen_type(rng: &mut Rng, depth: u32) -> Type {
    let st = crate::gen::ALL_ST[rng.usize_below(11)];
    if rng.chance(1, 16) {
        // large leaves (the generators have separate paths for long requests)
        return match rng.below(6) {
            0 => array_type(vec![500 + rng.below(200)], UINT8),
            1 => array_type(vec![8192], BIT),
            2 => array_type(vec![16, 16], ciphercore_base::data_types::INT32),
            3 => array_type(vec![64 + rng.below(40)], UINT64),
            4 => array_type(vec![256 + rng.below(100)], ciphercore_base::data_types::UINT16),
            _ => array_type(vec![32 + rng.below(16)], ciphercore_base::data_types::UINT128),
        };
    }
    if depth == 0 || rng.chance(3, 5) {
        return match rng.below(5) {
            0 => scalar_type(st),
            1 => array_type(vec![1 + rng.below(20)], st),
            2 => array_type(vec![1 + rng.below(4), 1 + rng.below(4)], st),
            3 => array_type(vec![*rng.pick(&[7u64, 9, 15, 17, 31, 33])], BIT), // ragged bit arrays
            _ => array_type(vec![1 + rng.below(3), 1 + rng.below(3), 1 + rng.below(3)], st),
        };
    }
    if rng.chance(1, 5) {
        // tuples of EQUAL component types (points, triples of equal arrays, triples of triples): such a secret has the
        // shape of a share triple itself
        let e = gen_type(rng, depth - 1);
        let k = 2 + rng.usize_below(3);
        let t = tuple_type(vec![e; k]);
        return if rng.chance(1, 4) { tuple_type(vec![t.clone(), t.clone(), t]) } else { t };
    }
    match rng.below(3) {
        0 => tuple_type((0..rng.below(4)).map(|_| gen_type(rng, depth - 1)).collect()),
        1 => vector_type(rng.below(4), gen_type(rng, depth - 1)),
        _ => named_tuple_type((0..1 + rng.below(3)).map(|i| (format!("f{}", i), gen_type(rng, depth - 1))).collect()),
    }
}

fn sum3(t: &Type, a: &Value, b: &Value, c: &Value) -> Value {
    add_values(t, &add_values(t, a, b), c)
}

/// One dealer run through API `api`. Returns per-party bundles (3 slots each).
fn deal(api: &str, t: &Type, secret: &Value, dealer_seed: u64) -> Result<Vec<Vec<Value>>, String> {
    let es = crate::dsl::es;
    let mut prng = PRNG::new(Some(seed_from_u64(dealer_seed))).map_err(es)?;
    let tv = TypedValue::new(t.clone(), secret.clone()).map_err(es)?;
    match api {
        "get_local_shares_for_each_party" => {
            let bundles = tv.get_local_shares_for_each_party(&mut prng).map_err(es)?;
            if bundles.len() != 3 {
                return Err("expected 3 bundles".into());
            }
            bundles.iter().map(|b| as_vec(&b.value).ok_or_else(|| "bundle is not a tuple".to_string())).collect()
        }
        "secret_share_for_parties" => {
            let bundles = ReplicatedShares::secret_share_for_parties(tv, &mut prng).map_err(es)?;
            if bundles.len() != 3 {
                return Err("expected 3 bundles".into());
            }
            bundles.iter().map(|b| b.to_tuple().map_err(es).and_then(|x| as_vec(&x.value).ok_or_else(|| "bundle is not a tuple".to_string()))).collect()
        }
        "share_vector" => {
            // only flat arrays
            let st = t.get_scalar_type();
            let data = dec(secret, t);
            let bundles = share_vector(&mut prng, &data, st).map_err(es)?;
            bundles.iter().map(|b| as_vec(b).ok_or_else(|| "bundle is not a tuple".to_string())).collect()
        }
        _ => Err("unknown api".into()),
    }
}

/// The full check of one (type, secret, dealer seed, api, lost party).
pub fn check_share(api: &str, t: &Type, secret: &Value, dealer_seed: u64, lost: usize, counters: &mut BTreeMap<String, u64>) -> Option<(String, String)> {
    let es = crate::dsl::es;
    // (1) full tuple: secret_share + secret_share_reveal, and ReplicatedShares local evaluation + reveal
    if api != "share_vector" {
        let r = guarded(|| -> Result<(), String> {
            let mut prng = PRNG::new(Some(seed_from_u64(dealer_seed))).map_err(es)?;
            let tv = TypedValue::new(t.clone(), secret.clone()).map_err(es)?;
            let sh = tv.secret_share(&mut prng).map_err(es)?;
            let parts = as_vec(&sh.value).ok_or("secret_share: not a tuple")?;
            if parts.len() != 3 {
                return Err("secret_share: not three shares".into());
            }
            for p in &parts {
                valid_encoding(t, p).map_err(|e| format!("share is not a valid encoding of the type: {}", e))?;
            }
            if !typed_eq(t, &sum3(t, &parts[0], &parts[1], &parts[2]), secret) {
                return Err("the three shares of secret_share do not add up to the secret".into());
            }
            let rev = sh.secret_share_reveal().map_err(es)?;
            if !typed_eq(t, &rev.value, secret) {
                return Err("secret_share_reveal(secret_share(v)) != v".into());
            }
            let rs = ReplicatedShares::secret_share_for_local_evaluation(tv.clone(), &mut prng).map_err(es)?;
            let rv = rs.reveal().map_err(es)?;
            if !typed_eq(t, &rv.value, secret) {
                return Err("ReplicatedShares::reveal(secret_share_for_local_evaluation(v)) != v".into());
            }
            Ok(())
        });
        match r {
            Err(p) => return Some(("panic".into(), p)),
            Ok(Err(e)) => return Some(("reconstruction".into(), e)),
            Ok(Ok(())) => {}
        }
        *counters.entry("full-tuple-roundtrips".into()).or_insert(0) += 1;
    }
    // (2) per-party form over the simulated transport; one party is lost
    let bundles = match guarded(|| deal(api, t, secret, dealer_seed)) {
        Err(p) => return Some(("panic".into(), p)),
        Ok(Err(e)) => return Some(("dealer-error".into(), e)),
        Ok(Ok(b)) => b,
    };
    for (p, b) in bundles.iter().enumerate() {
        if b.len() != 3 {
            return Some(("layout".into(), format!("party {} bundle has {} slots", p, b.len())));
        }
    }
    // documented layout: party p holds slots p and p+1; slot s is held by parties s and s-1 and must agree
    for s in 0..3usize {
        let a = &bundles[s][s];
        let b = &bundles[(s + 2) % 3][s];
        if !typed_eq(t, a, b) {
            return Some(("layout".into(), format!("slot {} differs between its two holders (parties {} and {})", s, s, (s + 2) % 3)));
        }
    }
    let survivors: Vec<usize> = (0..3).filter(|p| *p != lost).collect();
    let mut slots: Vec<Option<Value>> = vec![None, None, None];
    for p in &survivors {
        for s in [*p, (*p + 1) % 3] {
            if slots[s].is_none() {
                slots[s] = Some(bundles[*p][s].clone());
            }
        }
    }
    if slots.iter().any(|s| s.is_none()) {
        return Some(("layout".into(), "two parties do not cover the three slots".into()));
    }
    let rec = sum3(t, slots[0].as_ref().unwrap(), slots[1].as_ref().unwrap(), slots[2].as_ref().unwrap());
    if !typed_eq(t, &rec, secret) {
        return Some(("reconstruction".into(), format!("parties {:?} (party {} lost) do not reconstruct the secret from the slots they hold", survivors, lost)));
    }
    *counters.entry(format!("reconstructions:lost-party-{}", lost)).or_insert(0) += 1;
    // the two shares a party holds are independent: with >= 64 bits of content they are never equal
    if ciphercore_base::data_types::get_size_in_bits(t.clone()).unwrap_or(0) >= 64 {
        for s in 0..3usize {
            if typed_eq(t, &bundles[s][s], &bundles[s][(s + 1) % 3]) {
                return Some(("shares-not-independent".into(), format!("the two shares held by party {} are identical", s)));
            }
        }
    }
    // ... and neither is a shifted copy of (part of) the other, nor of the junk slot: the dealer's random stream must
    // not be reused between the values one party gets to see (any two shares are jointly uniform)
    if crate::vals::all_bytes_full(t) {
        for p in 0..3usize {
            let a = crate::vals::flat_bytes(&bundles[p][p]);
            let b = crate::vals::flat_bytes(&bundles[p][(p + 1) % 3]);
            let j = crate::vals::flat_bytes(&bundles[p][(p + 2) % 3]);
            let mut pairs: Vec<(&str, &Vec<u8>, &Vec<u8>, bool)> = vec![("its two shares", &a, &b, false), ("its first share and itself", &a, &a, true), ("its second share and itself", &b, &b, true)];
            if api != "share_vector" {
                pairs.push(("its first share and its junk slot", &a, &j, false));
                pairs.push(("its second share and its junk slot", &b, &j, false));
            }
            for (what, x, y, same) in pairs {
                if x.len() >= 16 {
                    *counters.entry("shifted-copy-tests".into()).or_insert(0) += 1;
                }
                if let Some((d, m, k)) = crate::vals::shifted_copy(x, y, same) {
                    return Some((
                        "shares-not-independent".into(),
                        format!("party {}: {} agree in {} of {} byte positions at shift {} (independent uniform bytes agree in 1 of 256): the dealer's random stream is reused", p, what, k, m, d),
                    ));
                }
            }
        }
    }
    // the third slot of a party is junk: with >= 64 bits of content it must differ from the true share
    let bits = ciphercore_base::data_types::get_size_in_bits(t.clone()).unwrap_or(0);
    for p in 0..3usize {
        let js = (p + 2) % 3;
        let junk = &bundles[p][js];
        let truth = &bundles[js][js];
        if api != "share_vector" {
            if let Err(e) = valid_encoding(t, junk) {
                return Some(("layout".into(), format!("junk slot of party {} is not a value of the type: {}", p, e)));
            }
        }
        if bits >= 64 && api != "share_vector" && typed_eq(t, junk, truth) {
            return Some(("third-slot-leak".into(), format!("party {} holds the true share {} in the slot it must not know", p, js)));
        }
        if bits >= 64 && api != "share_vector" {
            let tot = sum3(t, &bundles[p][0], &bundles[p][1], &bundles[p][2]);
            if typed_eq(t, &tot, secret) {
                return Some(("third-slot-leak".into(), format!("the three slots of party {} add up to the secret", p)));
            }
        }
    }
    None
}

/// Distribution of a single party's two held shares over dealer seeds, for two secrets (two worlds).
pub fn distribution_check(seed: u64, n: usize, counters: &mut BTreeMap<String, u64>) -> Option<(String, String)> {
    let es = crate::dsl::es;
    let mut rng = Rng::new(seed ^ 0xD157);
    // (scalar type, api, number of bits for bit arrays): the last two are bit arrays that end inside a byte - their
    // first byte is a full byte and must be as uniform as any other (the generator clears padding bits of the last byte only)
    let configs: Vec<(ScalarType, &str, u64)> = vec![
        (UINT8, "get_local_shares_for_each_party", 0),
        (UINT64, "secret_share_for_parties", 0),
        (BIT, "get_local_shares_for_each_party", 8),
        (UINT8, "secret_share_for_parties", 0),
        (UINT8, "share_vector", 0),
        (BIT, "get_local_shares_for_each_party", 13),
        (BIT, "secret_share_for_parties", 27),
    ];
    for (st, api, nbits) in configs {
        let t = if st == BIT { array_type(vec![nbits], BIT) } else if api == "share_vector" { array_type(vec![1], st) } else { scalar_type(st) };
        let secret_a = enc(&vec![0u128; if st == BIT { nbits as usize } else { 1 }], st);
        let secret_b = if st == BIT { enc(&(0..nbits).map(|i| [1u128, 0, 1, 1, 0, 1, 1, 1][(i % 8) as usize]).collect::<Vec<u128>>(), st) } else { enc(&[0xA7u128], st) };
        for p in 0..3usize {
            // projections: low byte of each held share and their sum (catches "third share also held" / "shares not masked")
            let mut hist: Vec<Vec<Vec<u64>>> = vec![vec![vec![0u64; 256]; 3]; 2];
            for (w, secret) in [&secret_a, &secret_b].iter().enumerate() {
                for _ in 0..n {
                    let ds = rng.next_u64();
                    let bundles = match guarded(|| deal(api, &t, secret, ds)) {
                        Ok(Ok(b)) => b,
                        Ok(Err(e)) => return Some(("dealer-error".into(), e)),
                        Err(pn) => return Some(("panic".into(), pn)),
                    };
                    let lowb = |v: &Value| -> usize { crate::vals::as_bytes(v).and_then(|b| b.first().cloned()).unwrap_or(0) as usize };
                    let s0 = lowb(&bundles[p][p]);
                    let s1 = lowb(&bundles[p][(p + 1) % 3]);
                    hist[w][0][s0] += 1;
                    hist[w][1][s1] += 1;
                    hist[w][2][(s0 + s1) & 0xff] += 1;
                }
            }
            *counters.entry("distribution:dealer-runs".into()).or_insert(0) += 2 * n as u64;
            for proj in 0..3 {
                for w in 0..2 {
                    // uniformity on the 8-bit projection (for bit arrays the xor/sum projection of bytes is still uniform)
                    if st == BIT && proj == 2 {
                        continue;
                    }
                    let (bad, chi2) = chi2_exceeds(&hist[w][proj], n as f64 / 256.0);
                    if bad {
                        return Some((
                            "shares-not-uniform".into(),
                            format!("{} {:?}: party {} projection {} of its held shares is not uniform for secret world {} (chi2 = {:.0} over {} dealer seeds)", api, st, p, proj, w, chi2, n),
                        ));
                    }
                }
                // two-sample chi-square between the worlds
                let mut chi2: f64 = 0.0;
                let mut k: f64 = 0.0;
                for c in 0..256 {
                    let (a, b) = (hist[0][proj][c] as f64, hist[1][proj][c] as f64);
                    if a + b > 0.0 {
                        chi2 += (a - b).powi(2) / (a + b);
                        k += 1.0;
                    }
                }
                if chi2 > k + 2.0 * (40.0 * k).sqrt() + 80.0 {
                    return Some((
                        "shares-depend-on-secret".into(),
                        format!("{} {:?}: the distribution of party {}'s held shares (projection {}) differs between two secrets (chi2 = {:.0}, {} cells)", api, st, p, proj, chi2, k),
                    ));
                }
                *counters.entry("distribution:tests".into()).or_insert(0) += 3;
            }
        }
    }
    let _ = es;
    None
}

/// On-the-fly sharing done by `get_evaluator_result` (used by the ciphercore_evaluate CLI): an input given
/// in plain form for a graph that expects three shares is split by the helper itself - under the type the
/// GRAPH expects - evaluated, and revealed. The internal generator is seeded from the OS (not a seam the
/// harness controls); the revealed result must be exact whatever it draws.
pub fn cli_sharing_check(rng: &mut Rng, counters: &mut BTreeMap<String, u64>) -> Option<(String, String)> {
    use crate::dsl::{GraphD, Prog, Step};
    use crate::exec::{compile_case, Case, CompileOutcome, Inline, Owner};
    use ciphercore_base::data_types::{INT16, INT32, INT64, UINT16, UINT32};
    use ciphercore_base::evaluators::get_result_util::get_evaluator_result;
    use ciphercore_base::graphs::Operation;
    let (w, st) = *rng.pick(&[(8u64, UINT8), (16, UINT16), (16, INT16), (32, UINT32), (32, INT32), (64, UINT64), (64, INT64)]);
    let bt = array_type(vec![w], BIT);
    let arith = rng.chance(1, 3);
    // XOR of two bit strings, or (control) addition of two integers of the same type
    let (gt, op) = if arith { (scalar_type(st), Operation::Add) } else { (bt.clone(), Operation::Add) };
    let prog = Prog {
        graphs: vec![GraphD {
            steps: vec![
                Step { op: Operation::Input(gt.clone()), deps: vec![], gdeps: vec![] },
                Step { op: Operation::Input(gt.clone()), deps: vec![], gdeps: vec![] },
                Step { op, deps: vec![0, 1], gdeps: vec![] },
            ],
            output: 2,
            ..Default::default()
        }],
    };
    let a = rng.next_u128() & crate::vals::st_mask(st);
    let b = rng.next_u128() & crate::vals::st_mask(st);
    let case = Case { prog, owners: vec![Owner::Shared, Owner::Shared], outputs: vec![], inline: Inline::Simple, inputs: vec![enc(&[a], st), enc(&[b], st)] };
    let c = match compile_case(&case) {
        CompileOutcome::Ok(c) => c,
        _ => return None,
    };
    // the caller passes plain integers (declared as integer scalars), also for the bit-string graph
    let tvs = vec![TypedValue::new(scalar_type(st), enc(&[a], st)).ok()?, TypedValue::new(scalar_type(st), enc(&[b], st)).ok()?];
    let ctx = c.compiled.clone();
    let seed = seed_from_u64(rng.next_u64());
    let r = guarded(move || get_evaluator_result(ctx, tvs, true, ciphercore_base::evaluators::simple_evaluator::SimpleEvaluator::new(Some(seed))?));
    *counters.entry("cli-sharing:get_evaluator_result-runs".into()).or_insert(0) += 1;
    let expect = if arith { a.wrapping_add(b) & crate::vals::st_mask(st) } else { a ^ b };
    match r {
        Err(p) => Some(("panic".into(), format!("get_evaluator_result panicked: {}", p))),
        Ok(Err(e)) => Some(("cli-sharing".into(), format!("get_evaluator_result failed for plain {} inputs to a shared graph: {}", st, crate::dsl::es(e)))),
        Ok(Ok(tv)) => {
            let got = crate::vals::as_bytes(&tv.value).unwrap_or_default();
            let want = crate::vals::as_bytes(&enc(&[expect], st)).unwrap_or_default();
            if got != want {
                Some((
                    "cli-sharing".into(),
                    format!("get_evaluator_result(share, evaluate, reveal) of {} {} {} over {} returned bytes {:?}, expected {:?}", a, if arith { "+" } else { "xor" }, b, crate::dsl::type_str(&gt), got, want),
                ))
            } else {
                None
            }
        }
    }
}

/// The dealer as a separate PROCESS: the repository's `ciphercore_split_parties` binary (built from the current tree by
/// `./check C14`, path in VERIF_SPLIT_BIN) splits a file of typed inputs into one file per party according to the owner
/// tokens. Two dealer processes are run on the same inputs. Oracles: an input owned by party p appears in p's file only
/// (the others get a value of the same type that is not the secret); a public input appears everywhere; a secret-shared
/// input gives party j a triple whose slots j and j+1 agree with the neighbours' and add up to the secret while the third
/// slot is not the missing share; and the two processes draw different shares (the generator is seeded by the OS, which
/// the harness cannot replay - the verdict does not depend on the draw except with probability < 2^-60).
fn has_empty_vector(t: &Type) -> bool {
    match t {
        Type::Vector(n, e) => *n == 0 || has_empty_vector(e),
        Type::Tuple(ts) => ts.iter().any(|x| has_empty_vector(x)),
        Type::NamedTuple(ts) => ts.iter().any(|(_, x)| has_empty_vector(x)),
        _ => false,
    }
}

pub fn split_parties_check(rng: &mut Rng, counters: &mut BTreeMap<String, u64>) -> Option<(String, String)> {
    let bin = match std::env::var("VERIF_SPLIT_BIN") {
        Ok(b) if std::path::Path::new(&b).exists() => b,
        _ => {
            *counters.entry("split-parties:binary-not-built(skipped)".into()).or_insert(0) += 1;
            return None;
        }
    };
    let k = 1 + rng.usize_below(4);
    let mut inputs: Vec<TypedValue> = vec![];
    let mut owners: Vec<&str> = vec![];
    for i in 0..k {
        let t = if rng.chance(1, 3) { array_type(vec![2 + rng.below(3)], UINT64) } else { { let d = 1 + rng.below(2) as u32; gen_type(rng, d) } };
        let v = if rng.chance(1, 4) { biased_value(&t, rng) } else { crate::vals::random_value(&t, rng) };
        inputs.push(TypedValue::new(t, v).ok()?);
        owners.push(if i == 0 { "secret-shared" } else { *rng.pick(&["0", "1", "2", "public", "secret-shared", "secret-shared"]) });
    }
    let dir = std::env::temp_dir().join(format!("verif-split-{}-{}", std::process::id(), rng.next_u64()));
    if std::fs::create_dir_all(&dir).is_err() {
        *counters.entry("split-parties:harness-errors".into()).or_insert(0) += 1;
        eprintln!("HARNESS-ERROR: cannot create a scratch directory {:?}", dir);
        return None;
    }
    let res = (|| -> Result<Option<(String, String)>, String> {
        let inp = dir.join("inputs.json");
        std::fs::write(&inp, serde_json::to_string(&inputs).map_err(|e| e.to_string())?).map_err(|e| e.to_string())?;
        let mut runs: Vec<Vec<Vec<TypedValue>>> = vec![];
        for r in 0..2 {
            let outs: Vec<std::path::PathBuf> = (0..3).map(|p| dir.join(format!("run{}-party{}.json", r, p))).collect();
            let st = std::process::Command::new(&bin)
                .arg(&inp)
                .arg(owners.join(","))
                .args(&outs)
                .env_remove("RUST_LOG")
                .output()
                .map_err(|e| format!("cannot start {}: {}", bin, e))?;
            *counters.entry("split-parties:dealer-processes".into()).or_insert(0) += 1;
            if !st.status.success() {
                return Ok(Some(("split-parties".into(), format!("the dealer process failed on valid inputs (owners {}): {}", owners.join(","), String::from_utf8_lossy(&st.stderr).lines().next().unwrap_or("")))));
            }
            let mut per_party = vec![];
            for o in &outs {
                let txt = std::fs::read_to_string(o).map_err(|e| e.to_string())?;
                match serde_json::from_str::<Vec<TypedValue>>(&txt) {
                    Ok(v) if v.len() == k => per_party.push(v),
                    Ok(v) => return Ok(Some(("split-parties".into(), format!("a party file holds {} values for {} inputs", v.len(), k)))),
                    Err(e) => return Ok(Some(("split-parties".into(), format!("a party file does not parse: {}", e)))),
                }
            }
            runs.push(per_party);
        }
        for i in 0..k {
            let t = inputs[i].t.clone();
            let secret = &inputs[i].value;
            let bits = ciphercore_base::data_types::get_size_in_bits(t.clone()).unwrap_or(0);
            let nonzero_bytes = crate::vals::flat_bytes(secret).iter().filter(|b| **b != 0).count();
            // The JSON form of a TypedValue carries no element type for a vector without entries, so the type read back
            // from a party file is `vector of ()` there: a limit of the file format (value encoding), not of the sharing.
            // Types are compared only when the format can represent them; values are always compared.
            let lossy_t = has_empty_vector(&t);
            for (r, run) in runs.iter().enumerate() {
                match owners[i] {
                    "public" => {
                        for p in 0..3 {
                            if (!lossy_t && run[p][i].t != t) || !typed_eq(&t, &run[p][i].value, secret) {
                                return Ok(Some(("split-parties".into(), format!("public input {} is not handed to party {} unchanged (type {}; type in the party file {}; sent {}; received {})", i, p, crate::dsl::type_str(&t), crate::dsl::type_str(&run[p][i].t), crate::vals::raw_bytes_hex(secret).chars().take(80).collect::<String>(), crate::vals::raw_bytes_hex(&run[p][i].value).chars().take(80).collect::<String>()))));
                            }
                        }
                    }
                    "0" | "1" | "2" => {
                        let o: usize = owners[i].parse().unwrap();
                        for p in 0..3 {
                            if (!lossy_t && run[p][i].t != t) || !run[p][i].value.check_type(t.clone()).unwrap_or(false) {
                                return Ok(Some(("split-parties".into(), format!("input {} in the file of party {} does not have the input's type", i, p))));
                            }
                            let same = typed_eq(&t, &run[p][i].value, secret);
                            if p == o && !same {
                                return Ok(Some(("split-parties".into(), format!("input {} owned by party {} is not in its file", i, o))));
                            }
                            if p != o && same && nonzero_bytes >= 4 {
                                return Ok(Some(("owner-input-leak".into(), format!("input {} owned by party {} appears in the file of party {} (run {})", i, o, p, r))));
                            }
                        }
                        *counters.entry("split-parties:party-owned-inputs".into()).or_insert(0) += 1;
                    }
                    _ => {
                        let st3 = tuple_type(vec![t.clone(), t.clone(), t.clone()]);
                        let mut slots: Vec<Vec<Value>> = vec![];
                        for p in 0..3 {
                            if run[p][i].t != st3 {
                                return Ok(Some(("split-parties".into(), format!("shared input {}: party {} does not get a triple of the input's type", i, p))));
                            }
                            match as_vec(&run[p][i].value) {
                                Some(v) if v.len() == 3 && v.iter().all(|x| x.check_type(t.clone()).unwrap_or(false)) => slots.push(v),
                                _ => return Ok(Some(("split-parties".into(), format!("shared input {}: party {}'s triple is not three values of the input's type", i, p)))),
                            }
                        }
                        for p in 0..3 {
                            let nx = (p + 1) % 3;
                            if !typed_eq(&t, &slots[p][nx], &slots[nx][nx]) {
                                return Ok(Some(("layout".into(), format!("shared input {}: slot {} differs between its holders, parties {} and {}", i, nx, p, nx))));
                            }
                            let missing = (p + 2) % 3;
                            if bits >= 64 && crate::vals::all_bytes_full(&t) && typed_eq(&t, &slots[p][missing], &slots[missing][missing]) {
                                return Ok(Some(("third-slot-leak".into(), format!("shared input {}: the third slot in party {}'s file equals the share it must not know", i, p))));
                            }
                        }
                        let sum = sum3(&t, &slots[0][0], &slots[1][1], &slots[2][2]);
                        if !typed_eq(&t, &sum, secret) {
                            return Ok(Some(("reconstruction".into(), format!("shared input {}: the three shares in the party files do not add up to the secret", i))));
                        }
                        *counters.entry("split-parties:shared-inputs".into()).or_insert(0) += 1;
                    }
                }
            }
            if owners[i] == "secret-shared" && bits >= 64 && crate::vals::all_bytes_full(&t) {
                let a = as_vec(&runs[0][0][i].value).unwrap_or_default();
                let b = as_vec(&runs[1][0][i].value).unwrap_or_default();
                *counters.entry("split-parties:two-process-freshness-tests".into()).or_insert(0) += 1;
                if a.len() == 3 && b.len() == 3 && (typed_eq(&t, &a[0], &b[0]) || typed_eq(&t, &a[1], &b[1])) {
                    return Ok(Some(("shares-not-fresh".into(), format!("shared input {} ({}): two separate dealer processes handed party 0 the same share - the shares are a function of the secret alone", i, crate::dsl::type_str(&t)))));
                }
            }
        }
        Ok(None)
    })();
    let _ = std::fs::remove_dir_all(&dir);
    match res {
        Ok(v) => v,
        Err(e) => {
            *counters.entry("split-parties:harness-errors".into()).or_insert(0) += 1;
            eprintln!("HARNESS-ERROR: split-parties stage: {}", e);
            None
        }
    }
}

pub struct ShareOut {
    pub violation: Option<ShareReplay>,
    pub counters: BTreeMap<String, u64>,
    pub sample: Option<serde_json::Value>,
    pub key: u64,
    pub nontrivial: bool,
}

pub fn run_c14(args: &Args) -> i32 {
    let t0 = std::time::Instant::now();
    let (n, dist_n) = match args.tier {
        Tier::Quick => (args.cases.unwrap_or(40000), 40_000),
        Tier::Thorough => (args.cases.unwrap_or(400_000), 400_000),
    };
    let mut counters: BTreeMap<String, u64> = BTreeMap::new();
    let mut dist_v = distribution_check(args.seed, dist_n, &mut counters);
    if dist_v.is_none() {
        let mut r = Rng::derive(args.seed, "C14-cli", 0);
        for _ in 0..match args.tier {
            Tier::Quick => 24,
            Tier::Thorough => 400,
        } {
            if let Some(v) = cli_sharing_check(&mut r, &mut counters) {
                dist_v = Some(v);
                break;
            }
        }
    }
    if dist_v.is_none() {
        let mut r = Rng::derive(args.seed, "C14-split", 0);
        for _ in 0..match args.tier {
            Tier::Quick => 10,
            Tier::Thorough => 150,
        } {
            if let Some(v) = split_parties_check(&mut r, &mut counters) {
                dist_v = Some(v);
                break;
            }
        }
    }
    let results = run_cases(
        n,
        args.threads,
        |r: &ShareOut| r.violation.is_some(),
        |i| {
            let mut rng = Rng::derive(args.seed, "C14", i as u64);
            let api = *rng.pick(&["get_local_shares_for_each_party", "secret_share_for_parties", "share_vector"]);
            let t = if api == "share_vector" {
                let ints: Vec<ScalarType> = crate::gen::ALL_ST.iter().cloned().filter(|s| *s != BIT).collect();
                array_type(vec![if rng.chance(1, 10) { 200 + rng.below(400) } else { 1 + rng.below(40) }], *rng.pick(&ints))
            } else {
                gen_type(&mut rng, 2)
            };
            let secret = biased_value(&t, &mut rng);
            let dealer_seed = rng.next_u64();
            let lost = rng.usize_below(3);
            let mut c = BTreeMap::new();
            let v = check_share(api, &t, &secret, dealer_seed, lost, &mut c);
            *c.entry(format!("api:{}", api)).or_insert(0) += 1;
            *c.entry("fault:party-loss".into()).or_insert(0) += 1;
            let bits = ciphercore_base::data_types::get_size_in_bits(t.clone()).unwrap_or(0);
            ShareOut {
                violation: v.map(|(class, detail)| ShareReplay {
                    property: "C14".into(),
                    engine: "sharesim".into(),
                    seed: args.seed,
                    case_index: i as u64,
                    t: t.clone(),
                    secret: secret.clone(),
                    dealer_seed,
                    api: api.into(),
                    lost_party: lost,
                    class,
                    detail,
                }),
                counters: c,
                sample: if i < 3 { Some(serde_json::json!({"api": api, "type": crate::dsl::type_str(&t), "secret": crate::vals::render(&t, &secret), "lost_party": lost})) } else { None },
                key: crate::rng::hash_str(&format!("{}|{}|{}", api, crate::dsl::type_str(&t), lost)),
                nontrivial: bits > 0,
            }
        },
    );
    let mut samples = vec![];
    let mut distinct = std::collections::BTreeSet::new();
    let mut violation = None;
    for (_, r) in &results {
        for (k, v) in &r.counters {
            *counters.entry(k.clone()).or_insert(0) += v;
        }
        if let Some(s) = &r.sample {
            samples.push(s.clone());
        }
        if r.nontrivial {
            distinct.insert(r.key);
        }
        if violation.is_none() {
            violation = r.violation.clone();
        }
    }
    let mut code = 0;
    let mut nviol = 0;
    if let Some((class, detail)) = dist_v {
        nviol = 1;
        let doc = serde_json::json!({"property": "C14", "engine": "sharesim/distribution", "seed": args.seed, "dealer_runs_per_world": dist_n, "class": class, "detail": detail});
        match write_replay(&args.replay_dir, &format!("C14-{}-distribution", args.seed), &doc) {
            Ok(path) => {
                println!("VIOLATION property=C14 replay={}", path);
                println!("  class={} detail={}", class, detail);
            }
            Err(e) => {
                eprintln!("cannot write replay: {}", e);
                return 2;
            }
        }
        code = 1;
    } else if let Some(v) = violation {
        nviol = 1;
        match write_replay(&args.replay_dir, &format!("C14-{}-{}", args.seed, v.case_index), &serde_json::to_value(&v).unwrap()) {
            Ok(path) => {
                println!("VIOLATION property=C14 replay={}", path);
                println!("  class={} api={} type={} detail={}", v.class, v.api, crate::dsl::type_str(&v.t), v.detail);
            }
            Err(e) => {
                eprintln!("cannot write replay: {}", e);
                return 2;
            }
        }
        code = 1;
    }
    let wall = t0.elapsed().as_secs_f64();
    let harness_errors = counters.get("split-parties:harness-errors").cloned().unwrap_or(0);
    if samples.is_empty() {
        samples.push(serde_json::json!({"note": "no case completed"}));
    }
    let ev = EvidenceOut {
        args,
        level: "exploration",
        rule: "cases = seeded (type, secret, dealer seed, sharing API, lost party): types over all 11 scalar types, arrays incl. ragged bit arrays, nested tuples/vectors/named tuples; APIs get_local_shares_for_each_party, ReplicatedShares::secret_share_for_parties, share_vector (+ secret_share/secret_share_reveal and ReplicatedShares reveal on the full tuple); fault = loss of one of the three parties before reconstruction. distinct_nontrivial = distinct (API, type, lost party) combinations with a non-empty type. Plus two-world distribution tests of one party's held shares over dealer seeds, the on-the-fly sharing of get_evaluator_result, and the ciphercore_split_parties binary run as two separate dealer processes per input file (owner routing, layout, reconstruction, fresh shares per process)".into(),
        evaluations: results.len().max(1) as u64,
        distinct_nontrivial: distinct.len() as u64,
        samples,
        extra: serde_json::json!({
            "counters": counters,
            "faults_fired": {"party-loss": results.len()},
            "cases_per_hour": if wall > 0.0 { (results.len() as f64 / wall * 3600.0) as u64 } else { 0 },
            "components": {"real": ["TypedValue::secret_share / secret_share_reveal / get_local_shares_for_each_party", "ReplicatedShares::secret_share_for_parties / secret_share_for_local_evaluation / reveal", "mpc::utils::share_vector", "PRNG", "get_evaluator_result", "ciphercore_split_parties (binary built from the current tree, run as a process; its generator is seeded by the OS)"], "stub": ["dealer/party/transport roles", "reconstruction from held slots", "statistics"]}
        }),
        assumptions: vec!["party p is documented to hold slots p and p+1 (typed_value.rs, replicated_shares.rs, mpc/utils.rs)".into(), "statistical thresholds have false-alarm probability < e^-40 per test; the default seed makes the verdict on the unchanged tree a fixed fact".into()],
        wall_s: wall,
        violations: nviol,
        exhaustive: false,
    };
    if let Err(e) = write_evidence(ev) {
        eprintln!("cannot write evidence: {}", e);
        return 2;
    }
    println!("[C14] tier={} seed={} cases={} distribution_runs_per_world={} wall={:.1}s", args.tier.name(), args.seed, results.len(), dist_n, wall);
    if code == 0 && harness_errors > 0 {
        return 2;
    }
    code
}

pub fn replay_cmd(path: &str) -> i32 {
    let s = match std::fs::read_to_string(path) {
        Ok(s) => s,
        Err(e) => {
            eprintln!("cannot read {}: {}", path, e);
            return 2;
        }
    };
    let j: serde_json::Value = match serde_json::from_str(&s) {
        Ok(j) => j,
        Err(e) => {
            eprintln!("cannot parse: {}", e);
            return 2;
        }
    };
    if j.get("engine").and_then(|e| e.as_str()) == Some("sharesim/distribution") {
        let seed = j.get("seed").and_then(|x| x.as_u64()).unwrap_or(0);
        let n = j.get("dealer_runs_per_world").and_then(|x| x.as_u64()).unwrap_or(40_000) as usize;
        let mut c = BTreeMap::new();
        let mut v = distribution_check(seed, n, &mut c);
        if v.is_none() {
            let mut r = Rng::derive(seed, "C14-cli", 0);
            for _ in 0..400 {
                v = cli_sharing_check(&mut r, &mut c);
                if v.is_some() {
                    break;
                }
            }
        }
        if v.is_none() {
            let mut r = Rng::derive(seed, "C14-split", 0);
            for _ in 0..150 {
                v = split_parties_check(&mut r, &mut c);
                if v.is_some() {
                    break;
                }
            }
        }
        return match v {
            Some((class, detail)) => {
                println!("VIOLATION property=C14 replay={}", path);
                println!("  class={} detail={}", class, detail);
                1
            }
            None => {
                println!("replay {}: no violation reproduced", path);
                0
            }
        };
    }
    let rp: ShareReplay = match serde_json::from_value(j) {
        Ok(r) => r,
        Err(e) => {
            eprintln!("cannot parse replay: {}", e);
            return 2;
        }
    };
    let mut c = BTreeMap::new();
    match check_share(&rp.api, &rp.t, &rp.secret, rp.dealer_seed, rp.lost_party, &mut c) {
        Some((class, detail)) => {
            println!("VIOLATION property=C14 replay={}", path);
            println!("  class={} detail={}", class, detail);
            1
        }
        None => {
            println!("replay {}: no violation reproduced (recorded: {})", path, rp.class);
            0
        }
    }
}

#[allow(dead_code)]
fn _u(_: ScalarType) -> Type {
    scalar_type(UINT64)
}

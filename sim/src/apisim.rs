//! apisim (C11): histories of graph-building API calls by interleaved builder clients working on
//! several graphs of one or two shared contexts; calls with arguments that must be rejected, or
//! that exceed a resource limit, are the injected faults. Oracles: a small reference model for the
//! mandatory outcomes, snapshot equality after every failed call, a freshly reloaded twin context
//! that must behave identically (no ghost state), and the global well-formedness invariants.

use crate::harness::{run_cases, write_evidence, write_replay, Args, EvidenceOut, Tier};
use crate::rng::Rng;
use crate::trisim::guarded;
use crate::vals::{enc, st_mask};
use crate::wellformed::check_context;
use ciphercore_base::custom_ops::{CustomOperation, CustomOperationBody, Not, Or};
use ciphercore_base::data_types::{array_type, scalar_type, tuple_type, vector_type, Type, BIT, INT32, UINT64, UINT8};
use ciphercore_base::graphs::{create_context, Context, Graph, GraphAnnotation, Node, NodeAnnotation, Operation};
use ciphercore_base::ops::comparisons::{Equal, GreaterThan};
use serde::{Deserialize, Serialize};
use std::collections::{BTreeMap, BTreeSet};

/// A user-defined custom operation (the trait is public; users register their own). Mode 0 is a correct identity
/// operation; the other modes are operations whose instantiation is rejected at different points of the add-node
/// path: 1 returns a graph it forgot to finalize (rejected late, after the result type is known), 2 returns an
/// error, 3 panics, 4 sets no output node, 5 leaves a second, unfinalized graph in the instantiation context.
#[derive(Debug, Serialize, Deserialize, Eq, PartialEq, Hash)]
pub struct SimUserOp {
    pub mode: u64,
}

#[typetag::serde]
impl CustomOperationBody for SimUserOp {
    fn instantiate(&self, context: Context, arguments_types: Vec<Type>) -> ciphercore_base::errors::Result<Graph> {
        let g = context.create_graph()?;
        let mut ins = vec![];
        for t in &arguments_types {
            ins.push(g.input(t.clone())?);
        }
        if self.mode == 2 || ins.is_empty() {
            g.input(scalar_type(BIT))?.add(g.input(scalar_type(UINT8))?)?;
        }
        if self.mode == 3 {
            panic!("user operation panics");
        }
        if self.mode != 4 {
            g.set_output_node(ins[0].clone())?;
        }
        if self.mode == 5 {
            let g2 = context.create_graph()?;
            g2.input(scalar_type(BIT))?;
        }
        if self.mode != 1 && self.mode != 4 {
            g.finalize()?;
        }
        Ok(g)
    }
    fn get_name(&self) -> String {
        format!("SimUserOp({})", self.mode)
    }
}

fn user_op_mode(op: &Operation) -> Option<u64> {
    if let Operation::Custom(co) = op {
        let n = co.get_name();
        if let Some(r) = n.strip_prefix("SimUserOp(") {
            return r.trim_end_matches(')').parse().ok();
        }
    }
    None
}

#[derive(Clone, Debug, Serialize, Deserialize)]
pub enum ACall {
    CreateGraph { ctx: usize },
    AddNode { graph: usize, op: Operation, deps: Vec<usize>, gdeps: Vec<usize> },
    SetNodeName { node: usize, name: String },
    SetGraphName { graph: usize, name: String },
    AnnotateNode { node: usize, a: NodeAnnotation },
    AnnotateGraph { graph: usize, a: GraphAnnotation },
    SetOutput { graph: usize, node: usize },
    FinalizeGraph { graph: usize },
    SetMain { ctx: usize, graph: usize },
    FinalizeContext { ctx: usize },
}

#[derive(Clone, Debug, Serialize, Deserialize)]
pub struct ApiHistory {
    pub contexts: usize,
    pub clients: usize,
    pub calls: Vec<ACall>,
}

#[derive(Clone, Debug, Serialize, Deserialize)]
pub struct ApiReplay {
    pub property: String,
    pub engine: String,
    pub seed: u64,
    pub case_index: u64,
    pub fuzzing_limits: bool,
    pub history: ApiHistory,
    pub failing_call: usize,
    pub class: String,
    pub detail: String,
    #[serde(default)]
    pub minimised: bool,
}

// ---- reference model -------------------------------------------------------------------------

#[derive(Clone, Default)]
struct MGraph {
    ctx: usize,
    finalized: bool,
    nodes: usize,
    output: bool,
    name: Option<String>,
    node_names: BTreeSet<String>,
    named_nodes: BTreeSet<usize>,
    /// creation rank inside its context (= graph id)
    id: usize,
}

#[derive(Clone, Default)]
struct MCtx {
    finalized: bool,
    graphs: usize,
    main: bool,
    graph_names: BTreeSet<String>,
}

struct World {
    ctxs: Vec<Context>,
    mctx: Vec<MCtx>,
    /// handle = index of the creating call
    graphs: BTreeMap<usize, Graph>,
    mgraph: BTreeMap<usize, MGraph>,
    nodes: BTreeMap<usize, (usize, Node)>,
}

impl World {
    fn new(n: usize) -> World {
        World { ctxs: (0..n).map(|_| create_context().unwrap()).collect(), mctx: vec![MCtx::default(); n], graphs: BTreeMap::new(), mgraph: BTreeMap::new(), nodes: BTreeMap::new() }
    }
    fn snapshot(&self) -> Result<Vec<String>, String> {
        self.ctxs.iter().map(|c| serde_json::to_string(c).map_err(|e| e.to_string())).collect()
    }
}

#[derive(Default)]
pub struct ApiStats {
    pub calls: u64,
    pub ok: u64,
    pub failed: u64,
    pub mandatory_failures: u64,
    pub rollback_after_type_error: u64,
    pub rollback_after_size_limit: u64,
    pub rollback_after_total_size_limit: u64,
    pub twin_checks: u64,
    pub contexts_finalized: u64,
    pub graphs_finalized: u64,
    pub invariant_checks: u64,
    pub by_kind: BTreeMap<String, u64>,
    pub cross_graph_args: u64,
    pub cross_context_args: u64,
    pub retries_after_failure: u64,
}

/// `None` if a referenced handle does not exist (the call is skipped: its producer failed or was removed).
enum Resolved {
    Skip,
    Call(Box<dyn Fn(&World) -> Result<Option<(Option<Graph>, Option<Node>)>, String>>),
}

fn kind(c: &ACall) -> &'static str {
    match c {
        ACall::CreateGraph { .. } => "create_graph",
        ACall::AddNode { op, .. } => match op {
            Operation::Call | Operation::Iterate => "add_node:call/iterate",
            Operation::Custom(_) => "add_node:custom_op",
            Operation::Input(_) => "add_node:input",
            Operation::Constant(_, _) => "add_node:constant",
            _ => "add_node:other",
        },
        ACall::SetNodeName { .. } => "set_node_name",
        ACall::SetGraphName { .. } => "set_graph_name",
        ACall::AnnotateNode { .. } => "annotate_node",
        ACall::AnnotateGraph { .. } => "annotate_graph",
        ACall::SetOutput { .. } => "set_output_node",
        ACall::FinalizeGraph { .. } => "finalize_graph",
        ACall::SetMain { .. } => "set_main_graph",
        ACall::FinalizeContext { .. } => "finalize_context",
    }
}

/// Does the reference model demand that this call fails?
fn must_fail(w: &World, c: &ACall) -> Option<&'static str> {
    match c {
        ACall::CreateGraph { ctx } => {
            if w.mctx[*ctx].finalized {
                return Some("create_graph in a finalized context");
            }
        }
        ACall::AddNode { graph, deps, gdeps, op } => {
            let g = &w.mgraph[graph];
            if g.finalized {
                return Some("add_node to a finalized graph");
            }
            if matches!(user_op_mode(op), Some(m) if m != 0) {
                return Some("custom operation whose instantiation is rejected");
            }
            match op {
                Operation::Input(t) | Operation::Zeros(t) | Operation::Ones(t) | Operation::Random(t) | Operation::Constant(t, _) | Operation::Reshape(t)
                    if !crate::wellformed::type_ok(t) =>
                {
                    return Some("operation carrying an invalid type (empty/zero/overflowing shape or duplicate field names)");
                }
                _ => {}
            }
            for d in deps {
                let (dg, _) = &w.nodes[d];
                if dg != graph {
                    return Some("dependency from another graph/context");
                }
            }
            for gd in gdeps {
                let cg = &w.mgraph[gd];
                if cg.ctx != g.ctx {
                    return Some("callee from another context");
                }
                if !cg.finalized {
                    return Some("callee not finalized");
                }
                if cg.id >= g.id {
                    return Some("callee not older than the caller");
                }
            }
        }
        ACall::SetNodeName { node, name } => {
            let (gh, n) = &w.nodes[node];
            let g = &w.mgraph[gh];
            if w.mctx[g.ctx].finalized {
                return Some("set_node_name in a finalized context");
            }
            if g.node_names.contains(name) {
                return Some("duplicate node name");
            }
            if g.named_nodes.contains(&(n.get_id() as usize)) {
                return Some("node named twice");
            }
        }
        ACall::SetGraphName { graph, name } => {
            let g = &w.mgraph[graph];
            if w.mctx[g.ctx].finalized {
                return Some("set_graph_name in a finalized context");
            }
            if w.mctx[g.ctx].graph_names.contains(name) {
                return Some("duplicate graph name");
            }
            if g.name.is_some() {
                return Some("graph named twice");
            }
        }
        ACall::AnnotateNode { node, .. } => {
            let (gh, _) = &w.nodes[node];
            if w.mctx[w.mgraph[gh].ctx].finalized {
                return Some("annotation in a finalized context");
            }
        }
        ACall::AnnotateGraph { graph, .. } => {
            if w.mctx[w.mgraph[graph].ctx].finalized {
                return Some("annotation in a finalized context");
            }
        }
        ACall::SetOutput { graph, node } => {
            let g = &w.mgraph[graph];
            if g.finalized {
                return Some("set_output_node on a finalized graph");
            }
            if w.nodes[node].0 != *graph {
                return Some("output node from another graph");
            }
        }
        ACall::FinalizeGraph { graph } => {
            if !w.mgraph[graph].output {
                return Some("finalize without output node");
            }
        }
        ACall::SetMain { ctx, graph } => {
            let g = &w.mgraph[graph];
            if w.mctx[*ctx].finalized {
                return Some("set_main_graph in a finalized context");
            }
            if g.ctx != *ctx {
                return Some("main graph from another context");
            }
            if !g.finalized {
                return Some("main graph not finalized");
            }
        }
        ACall::FinalizeContext { ctx } => {
            if !w.mctx[*ctx].main {
                return Some("finalize context without main graph");
            }
            if w.mgraph.values().any(|g| g.ctx == *ctx && !g.finalized) {
                return Some("finalize context with an unfinalized graph");
            }
        }
    }
    None
}

fn refs_exist(w: &World, c: &ACall) -> bool {
    match c {
        ACall::CreateGraph { ctx } | ACall::FinalizeContext { ctx } => *ctx < w.ctxs.len(),
        ACall::AddNode { graph, deps, gdeps, .. } => w.graphs.contains_key(graph) && deps.iter().all(|d| w.nodes.contains_key(d)) && gdeps.iter().all(|g| w.graphs.contains_key(g)),
        ACall::SetNodeName { node, .. } | ACall::AnnotateNode { node, .. } => w.nodes.contains_key(node),
        ACall::SetGraphName { graph, .. } | ACall::AnnotateGraph { graph, .. } | ACall::FinalizeGraph { graph } => w.graphs.contains_key(graph),
        ACall::SetOutput { graph, node } => w.graphs.contains_key(graph) && w.nodes.contains_key(node),
        ACall::SetMain { ctx, graph } => *ctx < w.ctxs.len() && w.graphs.contains_key(graph),
    }
}

/// Execute the call against concrete objects. Returns Ok(new graph / new node) or the API's error text.
fn exec_call(
    c: &ACall,
    ctx_of: &dyn Fn(usize) -> Context,
    graph_of: &dyn Fn(usize) -> Graph,
    node_of: &dyn Fn(usize) -> Node,
) -> Result<(Option<Graph>, Option<Node>), String> {
    let es = crate::dsl::es;
    match c {
        ACall::CreateGraph { ctx } => ctx_of(*ctx).create_graph().map(|g| (Some(g), None)).map_err(es),
        ACall::AddNode { graph, op, deps, gdeps } => {
            let g = graph_of(*graph);
            let d: Vec<Node> = deps.iter().map(|x| node_of(*x)).collect();
            let gd: Vec<Graph> = gdeps.iter().map(|x| graph_of(*x)).collect();
            let r = if let Operation::Custom(co) = op { g.custom_op(co.clone(), d) } else { g.add_node(d, gd, op.clone()) };
            r.map(|n| (None, Some(n))).map_err(es)
        }
        ACall::SetNodeName { node, name } => node_of(*node).set_name(name).map(|_| (None, None)).map_err(es),
        ACall::SetGraphName { graph, name } => graph_of(*graph).set_name(name).map(|_| (None, None)).map_err(es),
        ACall::AnnotateNode { node, a } => node_of(*node).add_annotation(a.clone()).map(|_| (None, None)).map_err(es),
        ACall::AnnotateGraph { graph, a } => graph_of(*graph).add_annotation(a.clone()).map(|_| (None, None)).map_err(es),
        ACall::SetOutput { graph, node } => graph_of(*graph).set_output_node(node_of(*node)).map(|_| (None, None)).map_err(es),
        ACall::FinalizeGraph { graph } => graph_of(*graph).finalize().map(|_| (None, None)).map_err(es),
        ACall::SetMain { ctx, graph } => ctx_of(*ctx).set_main_graph(graph_of(*graph)).map(|_| (None, None)).map_err(es),
        ACall::FinalizeContext { ctx } => ctx_of(*ctx).finalize().map(|_| (None, None)).map_err(es),
    }
}

fn update_model(w: &mut World, idx: usize, c: &ACall, out: &(Option<Graph>, Option<Node>)) {
    match c {
        ACall::CreateGraph { ctx } => {
            let g = out.0.clone().unwrap();
            let id = w.mctx[*ctx].graphs;
            w.mctx[*ctx].graphs += 1;
            w.graphs.insert(idx, g);
            w.mgraph.insert(idx, MGraph { ctx: *ctx, id, ..Default::default() });
        }
        ACall::AddNode { graph, .. } => {
            let n = out.1.clone().unwrap();
            w.mgraph.get_mut(graph).unwrap().nodes += 1;
            w.nodes.insert(idx, (*graph, n));
        }
        ACall::SetNodeName { node, name } => {
            let (gh, n) = w.nodes[node].clone();
            let g = w.mgraph.get_mut(&gh).unwrap();
            g.node_names.insert(name.clone());
            g.named_nodes.insert(n.get_id() as usize);
        }
        ACall::SetGraphName { graph, name } => {
            let ctx = w.mgraph[graph].ctx;
            w.mgraph.get_mut(graph).unwrap().name = Some(name.clone());
            w.mctx[ctx].graph_names.insert(name.clone());
        }
        ACall::AnnotateNode { .. } | ACall::AnnotateGraph { .. } => {}
        ACall::SetOutput { graph, .. } => w.mgraph.get_mut(graph).unwrap().output = true,
        ACall::FinalizeGraph { graph } => w.mgraph.get_mut(graph).unwrap().finalized = true,
        ACall::SetMain { ctx, .. } => w.mctx[*ctx].main = true,
        ACall::FinalizeContext { ctx } => w.mctx[*ctx].finalized = true,
    }
}

/// Model <-> implementation agreement on what the model tracks.
fn model_agrees(w: &World) -> Result<(), String> {
    for (ci, c) in w.ctxs.iter().enumerate() {
        if c.get_num_graphs() as usize != w.mctx[ci].graphs {
            return Err(format!("context {} has {} graphs, model has {}", ci, c.get_num_graphs(), w.mctx[ci].graphs));
        }
        if c.get_main_graph().is_ok() != w.mctx[ci].main {
            return Err(format!("context {}: main graph presence disagrees with the model", ci));
        }
        let (cf, gf) = crate::wellformed::finalized_flags(c)?;
        if cf != w.mctx[ci].finalized {
            return Err(format!("context {}: finalized flag {} but model {}", ci, cf, w.mctx[ci].finalized));
        }
        for (h, g) in &w.graphs {
            let m = &w.mgraph[h];
            if m.ctx != ci {
                continue;
            }
            if g.get_id() as usize != m.id {
                return Err(format!("graph handle {} has id {}, model {}", h, g.get_id(), m.id));
            }
            if g.get_num_nodes() as usize != m.nodes {
                return Err(format!("graph {} of context {} has {} nodes, model has {}", m.id, ci, g.get_num_nodes(), m.nodes));
            }
            if gf.get(m.id).cloned().unwrap_or(false) != m.finalized {
                return Err(format!("graph {} of context {}: finalized flag disagrees with the model", m.id, ci));
            }
            if g.get_output_node().is_ok() != m.output {
                return Err(format!("graph {} of context {}: output presence disagrees with the model", m.id, ci));
            }
            match (&m.name, g.get_name()) {
                (Some(a), Ok(b)) if *a == b => {}
                (None, Err(_)) => {}
                _ => return Err(format!("graph {} of context {}: name disagrees with the model", m.id, ci)),
            }
            for name in &m.node_names {
                if g.retrieve_node(name).is_err() {
                    return Err(format!("graph {} of context {}: node name {:?} does not resolve", m.id, ci, name));
                }
            }
        }
    }
    Ok(())
}

pub struct CallCheck {
    pub violation: Option<(String, String)>,
}

/// Executes one call with all oracles. Returns a violation (class, detail) if any.
fn step(w: &mut World, idx: usize, c: &ACall, st: &mut ApiStats) -> Option<(String, String)> {
    if !refs_exist(w, c) {
        return None;
    }
    st.calls += 1;
    *st.by_kind.entry(kind(c).to_string()).or_insert(0) += 1;
    let before = match guarded(|| w.snapshot()) {
        Ok(Ok(s)) => s,
        Ok(Err(e)) => return Some(("serialise-error".into(), e)),
        Err(p) => return Some(("panic".into(), format!("serialising before call {}: {}", idx, p))),
    };
    let mf = must_fail(w, c);
    // the twin: contexts freshly rebuilt from their observable (serialised) state
    let twin: Option<Vec<Context>> = {
        let r = guarded(|| before.iter().map(|s| serde_json::from_str::<Context>(s).map_err(|e| e.to_string())).collect::<Result<Vec<Context>, String>>());
        match r {
            Ok(Ok(t)) => Some(t),
            Ok(Err(e)) => return Some(("reload-error".into(), format!("the live context does not reload before call {}: {}", idx, e))),
            Err(p) => return Some(("panic".into(), format!("reloading before call {}: {}", idx, p))),
        }
    };
    // live execution
    let live = {
        let ctxs = w.ctxs.clone();
        let graphs = w.graphs.clone();
        let nodes = w.nodes.clone();
        guarded(|| exec_call(c, &|i| ctxs[i].clone(), &|h| graphs[&h].clone(), &|h| nodes[&h].1.clone()))
    };
    let live = match live {
        Err(p) => return Some(("panic".into(), format!("call {} ({}) panicked: {}", idx, kind(c), p))),
        Ok(r) => r,
    };
    match (&live, mf) {
        (Ok(_), Some(why)) => {
            return Some(("accepted-invalid-call".into(), format!("call {} ({}) must be rejected ({}) but returned Ok", idx, kind(c), why)));
        }
        (Err(_), Some(_)) => st.mandatory_failures += 1,
        _ => {}
    }
    // twin execution
    if let Some(tw) = &twin {
        let mg = &w.mgraph;
        let nodes = &w.nodes;
        let t_graph = |h: usize| -> Graph { tw[mg[&h].ctx].get_graph_by_id(mg[&h].id as u64).expect("twin graph") };
        let t_node = |h: usize| -> Node {
            let (gh, n) = &nodes[&h];
            t_graph(*gh).get_node_by_id(n.get_id()).expect("twin node")
        };
        let tr = guarded(|| exec_call(c, &|i| tw[i].clone(), &t_graph, &t_node));
        st.twin_checks += 1;
        match tr {
            Err(p) => return Some(("panic".into(), format!("call {} ({}) panicked on the reloaded twin: {}", idx, kind(c), p))),
            Ok(tr) => {
                if tr.is_ok() != live.is_ok() {
                    return Some((
                        "ghost-state".into(),
                        format!(
                            "call {} ({}) returns {} on the live context but {} on a context freshly rebuilt from its serialised state: live={:?} twin={:?}",
                            idx,
                            kind(c),
                            if live.is_ok() { "Ok" } else { "Err" },
                            if tr.is_ok() { "Ok" } else { "Err" },
                            live.as_ref().err(),
                            tr.as_ref().err()
                        ),
                    ));
                }
                if live.is_ok() {
                    let a = guarded(|| w.snapshot());
                    let b = guarded(|| tw.iter().map(|c| serde_json::to_string(c).map_err(|e| e.to_string())).collect::<Result<Vec<String>, String>>());
                    if let (Ok(Ok(a)), Ok(Ok(b))) = (a, b) {
                        if a != b {
                            return Some(("ghost-state".into(), format!("after call {} ({}) the live context differs from its freshly rebuilt twin after the same call", idx, kind(c))));
                        }
                    }
                    // types: live node type equals the twin's (the twin re-derived everything from scratch)
                    if let (Ok((_, Some(ln))), Ok((_, Some(tn)))) = (&live, &tr) {
                        match (ln.get_type(), tn.get_type()) {
                            (Ok(x), Ok(y)) if x == y => {}
                            (x, y) => {
                                return Some((
                                    "stale-type".into(),
                                    format!("node created by call {} has type {:?} in the live context but {:?} in the rebuilt twin", idx, x.map_err(crate::dsl::es), y.map_err(crate::dsl::es)),
                                ))
                            }
                        }
                        if ln.get_id() != tn.get_id() {
                            return Some(("ghost-state".into(), format!("node created by call {} got id {} live but {} in the twin", idx, ln.get_id(), tn.get_id())));
                        }
                        if ln.get_name().ok().flatten().is_some() || !ln.get_annotations().unwrap_or_default().is_empty() {
                            return Some(("ghost-state".into(), format!("node created by call {} is born with a name or annotations", idx)));
                        }
                    }
                }
            }
        }
    }
    match live {
        Err(e) => {
            st.failed += 1;
            if e.contains("MAX_INDIVIDUAL_NODE_SIZE") || e.contains("MAX_TOTAL_SIZE_NODES") || e.contains("invalid size") {
                st.rollback_after_size_limit += 1;
                if e.contains("MAX_TOTAL_SIZE_NODES") {
                    st.rollback_after_total_size_limit += 1;
                }
            } else if matches!(c, ACall::AddNode { .. }) && mf.is_none() {
                st.rollback_after_type_error += 1;
            }
            let after = match guarded(|| w.snapshot()) {
                Ok(Ok(s)) => s,
                Ok(Err(e)) => return Some(("serialise-error".into(), e)),
                Err(p) => return Some(("panic".into(), format!("serialising after failed call {}: {}", idx, p))),
            };
            if after != before {
                return Some(("failed-call-changed-state".into(), format!("call {} ({}) returned Err ({}) but the serialised context changed", idx, kind(c), e)));
            }
            // a rejected call left nothing behind, so the same call is rejected again (state that serialisation does
            // not show - caches, counters - must not make the repetition succeed)
            if idx % 2 == 0 || user_op_mode(match c { ACall::AddNode { op, .. } => op, _ => &Operation::NOP }).is_some() {
                st.retries_after_failure += 1;
                let ctxs = w.ctxs.clone();
                let graphs = w.graphs.clone();
                let nodes = w.nodes.clone();
                match guarded(|| exec_call(c, &|i| ctxs[i].clone(), &|h| graphs[&h].clone(), &|h| nodes[&h].1.clone())) {
                    Err(p) => return Some(("panic".into(), format!("call {} ({}) panicked when repeated after its rejection: {}", idx, kind(c), p))),
                    Ok(Ok(_)) => {
                        return Some((
                            "ghost-state".into(),
                            format!("call {} ({}) was rejected ({}) and left the serialised context unchanged, yet the same call repeated at once returns Ok", idx, kind(c), e),
                        ))
                    }
                    Ok(Err(_)) => {}
                }
                match guarded(|| w.snapshot()) {
                    Ok(Ok(s)) if s == before => {}
                    _ => return Some(("failed-call-changed-state".into(), format!("call {} ({}) repeated after its rejection changed the serialised context", idx, kind(c)))),
                }
            }
        }
        Ok(out) => {
            st.ok += 1;
            update_model(w, idx, c, &out);
            match c {
                ACall::FinalizeContext { .. } => st.contexts_finalized += 1,
                ACall::FinalizeGraph { .. } => st.graphs_finalized += 1,
                _ => {}
            }
        }
    }
    // global invariants + model agreement
    if idx % 3 == 0 || matches!(c, ACall::FinalizeContext { .. } | ACall::FinalizeGraph { .. }) {
        st.invariant_checks += 1;
        for (ci, cx) in w.ctxs.iter().enumerate() {
            match guarded(|| check_context(cx)) {
                Err(p) => return Some(("panic".into(), format!("invariant check after call {}: {}", idx, p))),
                Ok(Err(e)) => return Some(("ill-formed-context".into(), format!("after call {} context {}: {}", idx, ci, e))),
                Ok(Ok(())) => {}
            }
        }
        match guarded(|| model_agrees(w)) {
            Err(p) => return Some(("panic".into(), p)),
            Ok(Err(e)) => return Some(("model-disagreement".into(), format!("after call {}: {}", idx, e))),
            Ok(Ok(())) => {}
        }
    }
    None
}

// ---- history generation ----------------------------------------------------------------------

/// Types that no node may carry: empty / zero / overflowing array shapes, named tuples with a repeated field name
/// (adjacent or not), also nested inside other containers.
fn invalid_type(rng: &mut Rng) -> Type {
    use ciphercore_base::data_types::named_tuple_type;
    let st = crate::gen::ALL_ST[rng.usize_below(11)];
    let s = scalar_type(st);
    let base = match rng.below(7) {
        0 => Type::Array(vec![], st),
        1 => array_type(vec![2, 0, 3], st),
        2 => array_type(vec![1 << 32, 1 << 32, 2], st),
        3 => named_tuple_type(vec![("a".into(), s.clone()), ("a".into(), s.clone())]),
        4 => named_tuple_type(vec![("a".into(), s.clone()), ("b".into(), array_type(vec![2], BIT)), ("a".into(), s.clone())]),
        5 => named_tuple_type(vec![("x".into(), s.clone()), ("y".into(), s.clone()), ("z".into(), s.clone()), ("y".into(), s.clone())]),
        _ => named_tuple_type(vec![("b".into(), s.clone()), ("a".into(), s.clone()), ("c".into(), s.clone()), ("b".into(), s.clone())]),
    };
    match rng.below(4) {
        0 => vector_type(2, base),
        1 => tuple_type(vec![s, base]),
        2 => named_tuple_type(vec![("p".into(), s), ("q".into(), base)]),
        _ => base,
    }
}

fn small_type(rng: &mut Rng) -> Type {
    let st = crate::gen::ALL_ST[rng.usize_below(11)];
    if rng.chance(1, 12) {
        return invalid_type(rng);
    }
    if rng.chance(1, 10) {
        return ciphercore_base::data_types::named_tuple_type(vec![("b".into(), scalar_type(st)), ("a".into(), array_type(vec![2], BIT)), ("c".into(), scalar_type(st))]);
    }
    match rng.below(5) {
        0 => scalar_type(st),
        1 => array_type(vec![1 + rng.below(4)], st),
        2 => array_type(vec![1 + rng.below(3), 1 + rng.below(3)], st),
        3 => tuple_type(vec![scalar_type(st), array_type(vec![2], BIT)]),
        _ => vector_type(1 + rng.below(3), scalar_type(st)),
    }
}

/// Types large enough to cross the (fuzzing-build) size limits: > 1000 bits individually, or a few hundred bits so that the total limit of 10000 is reached.
fn big_type(rng: &mut Rng) -> Type {
    match rng.below(4) {
        0 => array_type(vec![200], UINT8),       // 1600 bits > MAX_INDIVIDUAL_NODE_SIZE
        1 => array_type(vec![10, 13], UINT8),    // 1040 bits
        2 => array_type(vec![15], UINT64),       // 960 bits: allowed, eats the total budget
        _ => array_type(vec![900], BIT),         // 900 bits
    }
}

fn gen_call(w: &World, rng: &mut Rng, idx: usize, st: &mut ApiStats, fuzzing: bool, hungry: bool) -> ACall {
    let nctx = w.ctxs.len();
    let graphs: Vec<usize> = w.graphs.keys().cloned().collect();
    let nodes: Vec<usize> = w.nodes.keys().cloned().collect();
    if graphs.is_empty() || rng.chance(1, 14) {
        return ACall::CreateGraph { ctx: rng.usize_below(nctx) };
    }
    // a "client" works mostly on its own (recent, unfinalized) graph
    let open: Vec<usize> = graphs.iter().cloned().filter(|g| !w.mgraph[g].finalized).collect();
    let g = if !open.is_empty() && rng.chance(5, 6) { *rng.pick(&open) } else { *rng.pick(&graphs) };
    let own_nodes: Vec<usize> = nodes.iter().cloned().filter(|n| w.nodes[n].0 == g).collect();
    let pick_node = |rng: &mut Rng, st: &mut ApiStats| -> Option<usize> {
        if nodes.is_empty() {
            return None;
        }
        if own_nodes.is_empty() && !rng.chance(1, 6) {
            return None;
        }
        if own_nodes.is_empty() || rng.chance(1, 14) {
            let n = *rng.pick(&nodes);
            if w.nodes[&n].0 != g {
                if w.mgraph[&w.nodes[&n].0].ctx != w.mgraph[&g].ctx {
                    st.cross_context_args += 1;
                } else {
                    st.cross_graph_args += 1;
                }
            }
            Some(n)
        } else {
            Some(*rng.pick(&own_nodes))
        }
    };
    match rng.below(20) {
        0..=9 => {
            // add a node
            let mut k = rng.below(16);
            let ty_of = |h: usize| w.nodes[&h].1.get_type().ok();
            if hungry && k >= 10 {
                // size-hungry history: most new nodes are inputs of just-allowed size, so that the context-wide budget
                // (MAX_TOTAL_SIZE_NODES of the fuzzing build) runs out and later inputs are rejected by the total
                // accounting, not by the per-node limit
                k = 0;
            }
            match k {
                0 | 1 if hungry => {
                    let t = match rng.below(4) {
                        0 => small_type(rng),
                        // size estimate = element bits x (entries + 1), per-node limit 1000, context-wide budget 10000
                        1 => array_type(vec![900], BIT),
                        2 => array_type(vec![110], UINT8),
                        _ => array_type(vec![14], UINT64),
                    };
                    ACall::AddNode { graph: g, op: Operation::Input(t), deps: vec![], gdeps: vec![] }
                }
                0 | 1 => {
                    let t = if fuzzing && rng.chance(1, 3) { big_type(rng) } else { small_type(rng) };
                    ACall::AddNode { graph: g, op: Operation::Input(t), deps: vec![], gdeps: vec![] }
                }
                2 => {
                    let t = if fuzzing && rng.chance(1, 4) { big_type(rng) } else { small_type(rng) };
                    ACall::AddNode { graph: g, op: if rng.chance(1, 2) { Operation::Zeros(t) } else { Operation::Ones(t) }, deps: vec![], gdeps: vec![] }
                }
                3 => {
                    let stt = crate::gen::ALL_ST[rng.usize_below(11)];
                    let n = 1 + rng.below(3);
                    let t = array_type(vec![n], stt);
                    // sometimes a value that does not fit the type
                    let vals: Vec<u128> = (0..if rng.chance(1, 5) { n + 1 } else { n }).map(|_| rng.next_u128() & st_mask(stt)).collect();
                    ACall::AddNode { graph: g, op: Operation::Constant(t, enc(&vals, stt)), deps: vec![], gdeps: vec![] }
                }
                4..=7 => {
                    let a = match pick_node(rng, st) {
                        Some(a) => a,
                        None => return ACall::AddNode { graph: g, op: Operation::Input(small_type(rng)), deps: vec![], gdeps: vec![] },
                    };
                    // same-typed partner most of the time
                    let same: Vec<usize> = own_nodes.iter().cloned().filter(|n| ty_of(*n) == ty_of(a)).collect();
                    let b = if !same.is_empty() && rng.chance(3, 4) { *rng.pick(&same) } else { pick_node(rng, st).unwrap_or(a) };
                    let op = match rng.below(5) {
                        0 => Operation::Add,
                        1 => Operation::Subtract,
                        2 => Operation::Multiply,
                        3 => Operation::MixedMultiply,
                        _ => Operation::Dot,
                    };
                    ACall::AddNode { graph: g, op, deps: vec![a, b], gdeps: vec![] }
                }
                8 | 9 => {
                    let a = match pick_node(rng, st) {
                        Some(a) => a,
                        None => return ACall::AddNode { graph: g, op: Operation::Input(small_type(rng)), deps: vec![], gdeps: vec![] },
                    };
                    let op = match rng.below(9) {
                        0 => Operation::A2B,
                        1 => Operation::B2A(INT32),
                        2 => Operation::Sum(vec![0]),
                        3 => Operation::PermuteAxes(vec![1, 0]),
                        4 => Operation::Get(vec![0]),
                        5 => Operation::NOP,
                        6 => Operation::TupleGet(rng.below(3)),
                        7 => Operation::ArrayToVector,
                        _ => Operation::Repeat(1 + rng.below(if fuzzing { 40 } else { 3 })),
                    };
                    ACall::AddNode { graph: g, op, deps: vec![a], gdeps: vec![] }
                }
                10 => {
                    let k = 1 + rng.usize_below(3);
                    let deps: Vec<usize> = (0..k).filter_map(|_| pick_node(rng, st)).collect();
                    ACall::AddNode { graph: g, op: Operation::CreateTuple, deps, gdeps: vec![] }
                }
                11 => ACall::AddNode { graph: g, op: Operation::Random(small_type(rng)), deps: vec![], gdeps: vec![] },
                12 | 13 => {
                    // call / iterate on finalized, unfinalized, younger and foreign graphs
                    let callee = *rng.pick(&graphs);
                    let n_in = w.graphs[&callee].get_nodes().iter().filter(|n| n.get_operation().is_input()).count();
                    let deps: Vec<usize> = (0..n_in).filter_map(|_| pick_node(rng, st)).collect();
                    let op = if rng.chance(3, 4) { Operation::Call } else { Operation::Iterate };
                    ACall::AddNode { graph: g, op, deps, gdeps: vec![callee] }
                }
                _ => {
                    let a = match pick_node(rng, st) {
                        Some(a) => a,
                        None => return ACall::AddNode { graph: g, op: Operation::Input(small_type(rng)), deps: vec![], gdeps: vec![] },
                    };
                    let b = pick_node(rng, st).unwrap_or(a);
                    let (co, deps) = match rng.below(6) {
                        4 | 5 => (CustomOperation::new(SimUserOp { mode: *rng.pick(&[0u64, 0, 1, 1, 2, 3, 4, 5]) }), if rng.chance(1, 8) { vec![] } else { vec![a] }),
                        0 => (CustomOperation::new(Not {}), vec![a]),
                        1 => (CustomOperation::new(Or {}), vec![a, b]),
                        2 => (CustomOperation::new(Equal {}), vec![a, b]),
                        _ => (CustomOperation::new(GreaterThan { signed_comparison: rng.chance(1, 2) }), vec![a, b]),
                    };
                    ACall::AddNode { graph: g, op: Operation::Custom(co), deps, gdeps: vec![] }
                }
            }
        }
        10 | 11 => match pick_node(rng, st) {
            Some(n) => ACall::SetNodeName { node: n, name: format!("n{}", rng.below(6)) },
            None => ACall::AddNode { graph: g, op: Operation::Input(small_type(rng)), deps: vec![], gdeps: vec![] },
        },
        12 => ACall::SetGraphName { graph: *rng.pick(&graphs), name: format!("g{}", rng.below(4)) },
        13 => match pick_node(rng, st) {
            Some(n) => ACall::AnnotateNode {
                node: n,
                a: match rng.below(4) {
                    0 => NodeAnnotation::Private,
                    1 => NodeAnnotation::Send(rng.below(3), rng.below(3)),
                    2 => NodeAnnotation::AssociativeOperation,
                    _ => NodeAnnotation::PRFMultiplication,
                },
            },
            None => ACall::AddNode { graph: g, op: Operation::Input(small_type(rng)), deps: vec![], gdeps: vec![] },
        },
        14 => ACall::AnnotateGraph { graph: *rng.pick(&graphs), a: if rng.chance(1, 2) { GraphAnnotation::AssociativeOperation } else { GraphAnnotation::OneBitState } },
        15 | 16 => match pick_node(rng, st) {
            Some(n) => ACall::SetOutput { graph: g, node: n },
            None => ACall::AddNode { graph: g, op: Operation::Input(small_type(rng)), deps: vec![], gdeps: vec![] },
        },
        17 => ACall::FinalizeGraph { graph: g },
        18 => {
            let c = rng.usize_below(nctx);
            ACall::SetMain { ctx: c, graph: *rng.pick(&graphs) }
        }
        _ => {
            let _ = idx;
            ACall::FinalizeContext { ctx: rng.usize_below(nctx) }
        }
    }
}

/// Generate (online) and check a history. Returns the history and the first violation.
pub fn gen_and_run(rng: &mut Rng, fuzzing: bool, st: &mut ApiStats) -> (ApiHistory, Option<(usize, String, String)>) {
    let contexts = 1 + rng.usize_below(2);
    let clients = 1 + rng.usize_below(3);
    let n = 20 + rng.usize_below(100);
    let mut w = World::new(contexts);
    let mut calls = vec![];
    // one history in five of the limits-reachable configuration is size-hungry (coin from a copy of the stream)
    let hungry = fuzzing && {
        let mut r2 = rng.clone();
        r2.below(5) == 0
    };
    for idx in 0..n {
        let c = gen_call(&w, rng, idx, st, fuzzing, hungry);
        calls.push(c.clone());
        if let Some((class, detail)) = step(&mut w, idx, &c, st) {
            return (ApiHistory { contexts, clients, calls }, Some((idx, class, detail)));
        }
    }
    // drive towards finalization so that finalized objects get exercised: finalize what can be finalized, then poke
    let open: Vec<usize> = w.graphs.keys().cloned().collect();
    let mut idx = n;
    for g in open {
        let own: Vec<usize> = w.nodes.iter().filter(|(_, v)| v.0 == g).map(|(k, _)| *k).collect();
        let mut own = own;
        if own.is_empty() && !w.mgraph[&g].finalized {
            let c = ACall::AddNode { graph: g, op: Operation::Input(scalar_type(UINT8)), deps: vec![], gdeps: vec![] };
            calls.push(c.clone());
            if let Some((class, detail)) = step(&mut w, idx, &c, st) {
                return (ApiHistory { contexts, clients, calls }, Some((idx, class, detail)));
            }
            if w.nodes.contains_key(&idx) {
                own.push(idx);
            }
            idx += 1;
        }
        let mut extra = vec![];
        if !w.mgraph[&g].output {
            if let Some(nd) = own.last() {
                extra.push(ACall::SetOutput { graph: g, node: *nd });
            }
        }
        extra.push(ACall::FinalizeGraph { graph: g });
        for c in extra {
            calls.push(c.clone());
            if let Some((class, detail)) = step(&mut w, idx, &c, st) {
                return (ApiHistory { contexts, clients, calls }, Some((idx, class, detail)));
            }
            idx += 1;
        }
    }
    for ci in 0..contexts {
        let gs: Vec<usize> = w.mgraph.iter().filter(|(_, m)| m.ctx == ci && m.finalized).map(|(k, _)| *k).collect();
        let mut extra = vec![];
        if !w.mctx[ci].main {
            if let Some(g) = gs.last() {
                extra.push(ACall::SetMain { ctx: ci, graph: *g });
            }
        }
        extra.push(ACall::FinalizeContext { ctx: ci });
        for c in extra {
            calls.push(c.clone());
            if let Some((class, detail)) = step(&mut w, idx, &c, st) {
                return (ApiHistory { contexts, clients, calls }, Some((idx, class, detail)));
            }
            idx += 1;
        }
    }
    // every mutator against (possibly) finalized objects: a systematic battery on a few nodes and graphs (named and
    // annotated nodes first: a mutator may guard only the path taken for a fresh node), then random calls
    {
        let mut battery: Vec<ACall> = vec![];
        let mut ns: Vec<usize> = w.nodes.keys().cloned().collect();
        ns.sort_by_key(|n| {
            let nd = &w.nodes[n].1;
            let decorated = nd.get_name().ok().flatten().is_some() as u8 + 2 * (!nd.get_annotations().unwrap_or_default().is_empty()) as u8;
            (3 - decorated, rng_key(*n))
        });
        for n in ns.iter().take(4) {
            battery.push(ACall::AnnotateNode { node: *n, a: NodeAnnotation::Send(rng.below(3), rng.below(3)) });
            battery.push(ACall::SetNodeName { node: *n, name: format!("n{}", rng.below(8)) });
        }
        let gs: Vec<usize> = w.graphs.keys().cloned().collect();
        for _ in 0..2.min(gs.len()) {
            let g = *rng.pick(&gs);
            battery.push(ACall::AnnotateGraph { graph: g, a: GraphAnnotation::AssociativeOperation });
            battery.push(ACall::SetGraphName { graph: g, name: format!("g{}", rng.below(6)) });
            battery.push(ACall::AddNode { graph: g, op: Operation::Input(scalar_type(UINT8)), deps: vec![], gdeps: vec![] });
            if let Some(n) = ns.iter().find(|n| w.nodes[*n].0 == g) {
                battery.push(ACall::SetOutput { graph: g, node: *n });
            }
            battery.push(ACall::FinalizeGraph { graph: g });
        }
        for ci in 0..contexts {
            battery.push(ACall::CreateGraph { ctx: ci });
            if let Some(g) = gs.iter().find(|g| w.mgraph[*g].ctx == ci) {
                battery.push(ACall::SetMain { ctx: ci, graph: *g });
            }
            battery.push(ACall::FinalizeContext { ctx: ci });
        }
        for c in battery {
            calls.push(c.clone());
            if let Some((class, detail)) = step(&mut w, idx, &c, st) {
                return (ApiHistory { contexts, clients, calls }, Some((idx, class, detail)));
            }
            idx += 1;
        }
    }
    for _ in 0..12 {
        let c = gen_call(&w, rng, idx, st, fuzzing, false);
        calls.push(c.clone());
        if let Some((class, detail)) = step(&mut w, idx, &c, st) {
            return (ApiHistory { contexts, clients, calls }, Some((idx, class, detail)));
        }
        idx += 1;
    }
    (ApiHistory { contexts, clients, calls }, None)
}

/// Replay an explicit history (with skipped calls) and return the first violation.
pub fn run_history(h: &ApiHistory) -> Option<(usize, String, String)> {
    let mut w = World::new(h.contexts);
    let mut st = ApiStats::default();
    for (idx, c) in h.calls.iter().enumerate() {
        if let Some((class, detail)) = step(&mut w, idx, c, &mut st) {
            return Some((idx, class, detail));
        }
    }
    None
}

/// Delta debugging over the call list: handles are creating-call indices, so removed calls are
/// replaced by a harmless placeholder (a call whose references do not exist is skipped).
fn minimise(mut rp: ApiReplay) -> ApiReplay {
    let class = rp.class.clone();
    // truncate after the failing call
    rp.history.calls.truncate(rp.failing_call + 1);
    let mut budget = 600;
    let mut i = 0;
    while i + 1 < rp.history.calls.len() && budget > 0 {
        budget -= 1;
        let mut cand = rp.history.clone();
        // placeholder: a reference to a never-created handle => skipped
        cand.calls[i] = ACall::FinalizeGraph { graph: usize::MAX };
        match run_history(&cand) {
            Some((fc, c, d)) if c == class => {
                rp.history = cand;
                rp.failing_call = fc;
                rp.detail = d;
            }
            _ => {}
        }
        i += 1;
    }
    rp.minimised = true;
    rp
}

pub struct ApiOut {
    pub violation: Option<ApiReplay>,
    pub stats: ApiStats,
    pub sample: Option<serde_json::Value>,
    pub key: u64,
    pub nontrivial: bool,
}

pub fn fuzzing_build() -> bool {
    cfg!(feature = "fuzzing")
}

pub fn run_c11(args: &Args) -> i32 {
    let t0 = std::time::Instant::now();
    let n = match args.tier {
        Tier::Quick => args.cases.unwrap_or(3000),
        Tier::Thorough => args.cases.unwrap_or(150_000),
    };
    let fuzzing = fuzzing_build();
    let results = run_cases(
        n,
        args.threads,
        |r: &ApiOut| r.violation.is_some(),
        |i| {
            let mut rng = Rng::derive(args.seed, "C11", i as u64);
            let mut st = ApiStats::default();
            // half of the histories avoid oversized types (the limits-unreachable configuration)
            let use_limits = fuzzing && i % 2 == 0;
            let (h, v) = gen_and_run(&mut rng, use_limits, &mut st);
            let key = crate::rng::hash_str(&serde_json::to_string(&h).unwrap_or_default());
            let nontrivial = st.failed > 0 && st.ok > 5;
            ApiOut {
                violation: v.map(|(fc, class, detail)| ApiReplay {
                    property: "C11".into(),
                    engine: "apisim".into(),
                    seed: args.seed,
                    case_index: i as u64,
                    fuzzing_limits: use_limits,
                    history: h.clone(),
                    failing_call: fc,
                    class,
                    detail,
                    minimised: false,
                }),
                sample: if i < 2 {
                    Some(serde_json::json!({"contexts": h.contexts, "clients": h.clients, "calls": h.calls.iter().take(25).map(|c| format!("{:?}", c).chars().take(120).collect::<String>()).collect::<Vec<_>>(), "total_calls": h.calls.len()}))
                } else {
                    None
                },
                stats: st,
                key,
                nontrivial,
            }
        },
    );
    let mut tot = ApiStats::default();
    let mut samples = vec![];
    let mut distinct = BTreeSet::new();
    let mut violation = None;
    for (_, r) in &results {
        let s = &r.stats;
        tot.calls += s.calls;
        tot.ok += s.ok;
        tot.failed += s.failed;
        tot.mandatory_failures += s.mandatory_failures;
        tot.retries_after_failure += s.retries_after_failure;
        tot.rollback_after_type_error += s.rollback_after_type_error;
        tot.rollback_after_size_limit += s.rollback_after_size_limit;
        tot.rollback_after_total_size_limit += s.rollback_after_total_size_limit;
        tot.twin_checks += s.twin_checks;
        tot.contexts_finalized += s.contexts_finalized;
        tot.graphs_finalized += s.graphs_finalized;
        tot.invariant_checks += s.invariant_checks;
        tot.cross_graph_args += s.cross_graph_args;
        tot.cross_context_args += s.cross_context_args;
        for (k, v) in &s.by_kind {
            *tot.by_kind.entry(k.clone()).or_insert(0) += v;
        }
        if r.nontrivial {
            distinct.insert(r.key);
        }
        if let Some(s) = &r.sample {
            samples.push(s.clone());
        }
        if violation.is_none() {
            violation = r.violation.clone();
        }
    }
    let mut code = 0;
    let mut nviol = 0;
    if let Some(v) = violation {
        nviol = 1;
        let v = minimise(v);
        match write_replay(&args.replay_dir, &format!("C11-{}-{}", args.seed, v.case_index), &serde_json::to_value(&v).unwrap()) {
            Ok(path) => {
                println!("VIOLATION property=C11 replay={}", path);
                println!("  class={} failing_call={} detail={}", v.class, v.failing_call, v.detail.chars().take(400).collect::<String>());
            }
            Err(e) => {
                eprintln!("cannot write replay: {}", e);
                return 2;
            }
        }
        code = 1;
    }
    let wall = t0.elapsed().as_secs_f64();
    if samples.is_empty() {
        samples.push(serde_json::json!({"note": "no history completed"}));
    }
    let ev = EvidenceOut {
        args,
        level: "exploration",
        rule: "histories = 20..120 seeded API calls (create_graph, add_node of many operation families incl. call/iterate/custom_op/constant, set names, annotate, set_output_node, finalize graph, set_main_graph, finalize context) issued by interleaved builder clients over the graphs of 1-2 shared contexts, with arguments from the client's own graph (valid) or from sibling graphs / the other context / unfinalized, younger or foreign callees / wrong or oversized types (faults), followed by a forced finalization phase and further mutators against the finalized objects. distinct_nontrivial = distinct histories with at least one failed call and more than 5 successful ones".into(),
        evaluations: tot.calls.max(1),
        distinct_nontrivial: distinct.len() as u64,
        samples,
        extra: serde_json::json!({
            "histories": results.len(),
            "api_calls": tot.calls,
            "calls_ok": tot.ok,
            "calls_failed(faults fired)": tot.failed,
            "faults_fired": {
                "api-fail:mandatory(model demands failure)": tot.mandatory_failures,
                "api-fail:rejected-call-repeated-at-once(must be rejected again)": tot.retries_after_failure,
                "api-fail:type-error-rollback": tot.rollback_after_type_error,
                "api-fail:size-limit-rollback(post type registration)": tot.rollback_after_size_limit,
                "api-fail:total-size-budget-rollback": tot.rollback_after_total_size_limit,
                "argument-from-sibling-graph": tot.cross_graph_args,
                "argument-from-other-context": tot.cross_context_args
            },
            "fuzzing_feature_build(size limits reachable)": fuzzing,
            "twin_reload_checks": tot.twin_checks,
            "invariant_checks": tot.invariant_checks,
            "graphs_finalized": tot.graphs_finalized,
            "contexts_finalized": tot.contexts_finalized,
            "calls_by_kind": tot.by_kind,
            "histories_per_hour": if wall > 0.0 { (results.len() as f64 / wall * 3600.0) as u64 } else { 0 },
            "components": {"real": ["Context/Graph/Node API (graphs.rs)", "type inference + type cache", "size accounting (fuzzing feature constants)", "Context serialisation used as the observer"], "stub": ["builder clients and their scheduler", "reference model (finalization, names, counts)", "twin-reload differential", "well-formedness checker"]}
        }),
        assumptions: vec![
            "whether type inference accepts an operation is taken from the implementation; the model only fixes the mandatory outcomes listed in DESIGN §4 C11".into(),
            "names/annotations/main pointer belong to the context and are frozen by Context::finalize; node lists and outputs belong to the graph and are frozen by Graph::finalize".into(),
            "observable state = the serialised context plus public getters".into(),
        ],
        wall_s: wall,
        violations: nviol,
        exhaustive: false,
    };
    if let Err(e) = write_evidence(ev) {
        eprintln!("cannot write evidence: {}", e);
        return 2;
    }
    println!(
        "[C11] tier={} seed={} histories={} calls={} failed={} (mandatory {}, type-rollback {}, size-rollback {}) fuzzing_limits={} wall={:.1}s",
        args.tier.name(),
        args.seed,
        results.len(),
        tot.calls,
        tot.failed,
        tot.mandatory_failures,
        tot.rollback_after_type_error,
        tot.rollback_after_size_limit,
        fuzzing,
        wall
    );
    code
}

pub fn replay_cmd(path: &str) -> i32 {
    let s = match std::fs::read_to_string(path) {
        Ok(s) => s,
        Err(e) => {
            eprintln!("cannot read {}: {}", path, e);
            return 2;
        }
    };
    let rp: ApiReplay = match serde_json::from_str(&s) {
        Ok(r) => r,
        Err(e) => {
            eprintln!("cannot parse replay: {}", e);
            return 2;
        }
    };
    if rp.fuzzing_limits && !fuzzing_build() {
        eprintln!("replay needs the fuzzing-feature build (./check C11 --replay ...)");
        return 2;
    }
    match run_history(&rp.history) {
        Some((fc, class, detail)) => {
            println!("VIOLATION property=C11 replay={}", path);
            println!("  class={} failing_call={} detail={}", class, fc, detail.chars().take(400).collect::<String>());
            1
        }
        None => {
            println!("replay {}: no violation reproduced (recorded: {})", path, rp.class);
            0
        }
    }
}

#[allow(dead_code)]
fn _u() -> (Type, Resolved) {
    (scalar_type(UINT64), Resolved::Skip)
}

fn rng_key(n: usize) -> u64 {
    crate::rng::hash_str(&format!("battery-{}", n))
}

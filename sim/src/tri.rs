//! trisim-based checks: shared case procedure, replay files, minimiser.

use crate::exec::{
    check_global_output, check_party_outputs, compile_case, global_inputs, is_abort, nontrivial, party_inputs, reference, Case, CompileOutcome,
    Compiled, JunkKind, JunkPlan, Violation,
};
use crate::harness::{Args, Stats};
use crate::rng::{combine, Chooser, Rng};
use crate::trisim::{guarded, Delivery, Policy, RunCfg, RunResult, Sim};
use ciphercore_base::data_types::Type;
use ciphercore_base::data_values::Value;
use ciphercore_base::evaluators::Evaluator;
use ciphercore_base::graphs::Operation;
use serde::{Deserialize, Serialize};

#[derive(Clone, Debug, Serialize, Deserialize)]
pub struct TriReplay {
    pub property: String,
    pub engine: String,
    pub seed: u64,
    pub case_index: u64,
    /// "party" = three-party (or one-party) simulator run; "global" = the repository's own evaluate_graph
    pub mode: String,
    pub case: Case,
    pub junk: JunkPlan,
    pub dealer_seed: u64,
    pub cfg: RunCfg,
    pub choices: Vec<u32>,
    pub violation: Violation,
    #[serde(default)]
    pub graph_shape_hash: u64,
    #[serde(default)]
    pub minimised: bool,
    #[serde(default)]
    pub notes: Vec<String>,
    #[serde(default)]
    pub program_summary: String,
}

pub fn gen_runcfg(rng: &mut Rng, tapes: [u64; 3]) -> RunCfg {
    let policy = match rng.weighted(&[1, 3, 2, 2]) {
        0 => Policy::Lockstep,
        1 => Policy::RandomTopo,
        2 => {
            let fast = rng.usize_below(3);
            let mut stalled = rng.usize_below(3);
            if stalled == fast {
                stalled = (fast + 1) % 3;
            }
            Policy::Skewed { fast, stalled, stall: rng.range(1, 200) as u32 }
        }
        _ => Policy::Pct { d: rng.range(1, 4) as u32 },
    };
    let delivery = match rng.weighted(&[2, 2, 2, 1]) {
        0 => Delivery::Immediate,
        1 => Delivery::Delayed { max_delay: rng.range(1, 40) as u32 },
        2 => Delivery::Reordered { max_delay: rng.range(1, 60) as u32 },
        _ => Delivery::Duplicated { max_delay: rng.range(1, 30) as u32, dup_pct: rng.range(5, 50) as u32 },
    };
    RunCfg {
        parties: 3,
        tapes,
        shared_tape: false,
        addressed: rng.chance(1, 4),
        policy,
        delivery,
        restart_pm: *rng.pick(&[0u32, 0, 5, 30]),
        instances: *rng.pick(&[1usize, 1, 2, 3]),
        keep_values: false,
    }
}

pub fn account(stats: &mut Stats, junk: &JunkPlan, cfg: &RunCfg, r: &RunResult) {
    stats.runs += 1;
    stats.events += r.events;
    stats.sim_time += r.sim_time;
    stats.faults.add(&r.faults);
    stats.interleavings.insert(r.ev_hash);
    let faulty = junk.fired() || cfg.policy != Policy::Lockstep || cfg.delivery != Delivery::Immediate || cfg.restart_pm > 0 || cfg.instances > 1;
    if faulty {
        stats.runs_faulty += 1;
    } else {
        stats.runs_fault_free += 1;
    }
    if junk.fired() {
        for k in junk.kind.iter() {
            stats.fire(&format!("junk:{:?}", k), 1);
        }
    }
    if !cfg.shared_tape {
        stats.fire("tapes:independent", 1);
    }
    if cfg.addressed {
        stats.fire("tapes:addressed", 1);
    }
    stats.fire("order:out-of-order-evaluations", r.faults.out_of_order_evals);
    stats.fire("order:stalled-steps", r.faults.stalled_steps);
    stats.fire("restart", r.faults.restarts);
    stats.fire("migrate", r.faults.migrations);
    stats.fire("net:delayed", r.faults.delayed);
    stats.fire("net:reordered", r.faults.reordered);
    stats.fire("net:duplicated", r.faults.duplicated);
    stats.probe("poison-nodes", r.faults.poison_nodes);
    stats.probe("poison-emitted", r.faults.poison_emitted);
    stats.probe("eval-errors-at-some-party", r.faults.eval_errors);
    stats.probe("messages", r.msgs.len() as u64);
}

pub fn graph_probes(stats: &mut Stats, c: &Compiled) {
    use ciphercore_base::graphs::Operation as O;
    let mut prf = 0;
    let mut perm_prf = 0;
    let mut random = 0;
    let mut multi_send = 0;
    let mut gather = 0;
    let mut cuckoo = 0;
    let mut switching = 0;
    for n in &c.gv.nodes {
        match n.op {
            O::PRF(_, _) => prf += 1,
            O::PermutationFromPRF(_, _) => perm_prf += 1,
            O::Random(_) => random += 1,
            O::Gather(_) => gather += 1,
            O::CuckooHash => cuckoo += 1,
            O::DecomposeSwitchingMap(_) => switching += 1,
            _ => {}
        }
        if n.sends.len() > 1 {
            multi_send += 1;
        }
    }
    stats.probe("graph:prf-nodes", prf);
    stats.probe("graph:permutation-from-prf", perm_prf);
    stats.probe("graph:random-nodes", random);
    stats.probe("graph:multi-send-nop", multi_send);
    stats.probe("graph:gather", gather);
    stats.probe("graph:cuckoo-hash", cuckoo);
    stats.probe("graph:switching-network", switching);
    stats.probe("graph:send-nodes", c.gv.num_sends() as u64);
    stats.nodes_total += c.gv.nodes.len() as u64;
    stats.graph_shapes.insert(c.gv.shape_hash());
}

/// The repository's own single-evaluator run of the compiled main graph (what C01 literally states).
pub fn global_run(c: &Compiled, inputs: Vec<Value>, seed: u64) -> Result<Value, String> {
    let g = c.gv.graph.clone();
    match guarded(move || {
        let mut ev = crate::exec::det_evaluator(seed);
        ev.evaluate_graph(g, inputs)
    }) {
        Err(p) => Err(format!("panic: {}", p)),
        Ok(Err(e)) => Err(crate::dsl::es(e)),
        Ok(Ok(v)) => Ok(v),
    }
}

/// Execute one simulated run and apply the party-output oracle.
pub fn run_party(case: &Case, c: &Compiled, reference_out: &Value, junk: &JunkPlan, dealer_seed: u64, cfg: &RunCfg, chooser: &mut Chooser) -> (RunResult, Option<Violation>) {
    let inputs = match party_inputs(case, c, junk, dealer_seed) {
        Ok(i) => i,
        Err(e) => {
            let mut r = Sim::new(&c.gv, cfg.clone()).run(&[], chooser);
            r.status = crate::trisim::Status::Harness { detail: e.clone() };
            return (r, Some(Violation { class: "harness".into(), detail: e }));
        }
    };
    let sim = Sim::new(&c.gv, cfg.clone());
    let r = sim.run(&inputs, chooser);
    let v = check_party_outputs(case, c, &r, reference_out);
    (r, v)
}

/// Re-execute a replay file against the current /repo. Returns the violation if it reproduces.
pub fn replay_tri(rp: &TriReplay) -> Result<Option<Violation>, String> {
    let c = match compile_case(&rp.case) {
        CompileOutcome::Ok(c) => c,
        CompileOutcome::Rejected(e) => return Err(format!("compiler rejects the replayed program now: {}", e)),
        CompileOutcome::Panic(p) => return Err(format!("compiler panics on the replayed program: {}", p)),
    };
    let reference_out = reference(&c, &rp.case.inputs)?;
    if rp.mode == "model" {
        let mut st = Stats::default();
        return Ok(crate::refmodels::model_check(&rp.case, &c.out_type, &reference_out, &mut st));
    }
    if rp.mode == "global" {
        let ins = global_inputs(&rp.case, &c, rp.dealer_seed)?;
        return Ok(match global_run(&c, ins, rp.cfg.tapes[0]) {
            Ok(v) => check_global_output(&rp.case, &c, &v, &reference_out),
            Err(e) => Some(Violation { class: "output-error".into(), detail: e }),
        });
    }
    let mut ch = Chooser::replay(rp.choices.clone());
    let (_r, v) = run_party(&rp.case, &c, &reference_out, &rp.junk, rp.dealer_seed, &rp.cfg, &mut ch);
    Ok(v)
}

fn same_class(a: &Option<Violation>, class: &str) -> bool {
    a.as_ref().map(|v| v.class == class && !is_abort(v)).unwrap_or(false)
}

/// Greedy delta debugging over schedule, faults, program, inputs and configuration. Every
/// candidate re-runs the real code; it is kept only if the same violation class persists.
pub fn minimise(mut rp: TriReplay, budget: usize) -> TriReplay {
    let class = rp.violation.class.clone();
    let mut left = budget;
    let mut try_candidate = |cand: &TriReplay, left: &mut usize| -> Option<Violation> {
        if *left == 0 {
            return None;
        }
        *left -= 1;
        match replay_tri(cand) {
            Ok(v) if same_class(&v, &class) => v,
            _ => None,
        }
    };
    // (1) schedule -> lockstep / immediate, no restarts, one instance, empty choice list
    let mut cand = rp.clone();
    cand.cfg.policy = Policy::Lockstep;
    cand.cfg.delivery = Delivery::Immediate;
    cand.cfg.restart_pm = 0;
    cand.cfg.instances = 1;
    cand.cfg.addressed = false;
    cand.choices = vec![];
    if let Some(v) = try_candidate(&cand, &mut left) {
        cand.violation = v;
        rp = cand;
        rp.notes.push("schedule reduced to lockstep/immediate".into());
    } else {
        // individually
        for step in 0..4 {
            let mut cand = rp.clone();
            match step {
                0 => cand.cfg.restart_pm = 0,
                1 => cand.cfg.instances = 1,
                2 => cand.cfg.delivery = Delivery::Immediate,
                _ => {
                    cand.cfg.policy = Policy::Lockstep;
                }
            }
            if let Some(v) = try_candidate(&cand, &mut left) {
                cand.violation = v;
                rp = cand;
            }
        }
        // truncate the choice list (tail becomes 0 = simplest choice)
        let mut len = rp.choices.len();
        while len > 0 && left > 0 {
            let nl = len / 2;
            let mut cand = rp.clone();
            cand.choices.truncate(nl);
            if let Some(v) = try_candidate(&cand, &mut left) {
                cand.violation = v;
                rp = cand;
                len = nl;
            } else {
                break;
            }
        }
    }
    // (2) junk: true values everywhere, then zeros, then a single party
    for k in [JunkKind::True, JunkKind::Zeros] {
        let mut cand = rp.clone();
        cand.junk.kind = [k, k, k];
        if let Some(v) = try_candidate(&cand, &mut left) {
            cand.violation = v;
            rp = cand;
            break;
        }
    }
    for p in 0..3 {
        let mut cand = rp.clone();
        if cand.junk.kind[p] == JunkKind::True {
            continue;
        }
        cand.junk.kind[p] = JunkKind::True;
        if let Some(v) = try_candidate(&cand, &mut left) {
            cand.violation = v;
            rp = cand;
        }
    }
    // independent tapes -> equal tapes
    {
        let mut cand = rp.clone();
        cand.cfg.tapes = [cand.cfg.tapes[0]; 3];
        if let Some(v) = try_candidate(&cand, &mut left) {
            cand.violation = v;
            rp = cand;
            rp.notes.push("fails even with identical tape seeds".into());
        }
    }
    // (3) program: make an earlier step the output (drops the tail), drop unused steps
    loop {
        let mut progressed = false;
        let main_len = rp.case.prog.main().steps.len();
        let cur_out = rp.case.prog.main().output;
        for new_out in 0..cur_out {
            if left == 0 {
                break;
            }
            let mut cand = rp.clone();
            {
                let m = cand.case.prog.main_mut();
                m.output = new_out;
                m.steps.truncate(new_out + 1);
            }
            // inputs must be kept: skip if truncation removed an Input step
            if cand.case.prog.input_types().len() != rp.case.prog.input_types().len() {
                continue;
            }
            if let Some(v) = try_candidate(&cand, &mut left) {
                cand.violation = v;
                rp = cand;
                progressed = true;
                break;
            }
        }
        if !progressed && main_len > cur_out + 1 {
            let mut cand = rp.clone();
            cand.case.prog.main_mut().steps.truncate(cur_out + 1);
            if cand.case.prog.input_types().len() == rp.case.prog.input_types().len() {
                if let Some(v) = try_candidate(&cand, &mut left) {
                    cand.violation = v;
                    rp = cand;
                    progressed = true;
                }
            }
        }
        if !progressed || left == 0 {
            break;
        }
    }
    // (3b) drop the steps of the main graph that the output does not depend on (inputs are kept)
    if left > 0 {
        if let Some(c2) = drop_dead_steps(&rp.case) {
            let mut cand = rp.clone();
            cand.case = c2;
            if let Some(v) = try_candidate(&cand, &mut left) {
                cand.violation = v;
                rp = cand;
                rp.notes.push("dead steps dropped".into());
            }
        }
    }
    // (3c) replace the result of a step by a fresh input holding the value the step had (secret-shared first, so that
    // it stays private; public as the second choice), latest steps first; then drop what became dead
    {
        let mut i = rp.case.prog.main().output;
        while i > 0 && left > 1 {
            i -= 1;
            if i >= rp.case.prog.main().steps.len() || matches!(rp.case.prog.main().steps[i].op, Operation::Input(_)) {
                continue;
            }
            for owner in [crate::exec::Owner::Shared, crate::exec::Owner::Public] {
                if let Some(c2) = step_to_input(&rp.case, i, owner) {
                    let c3 = drop_dead_steps(&c2).unwrap_or(c2);
                    let mut cand = rp.clone();
                    cand.case = c3;
                    if let Some(v) = try_candidate(&cand, &mut left) {
                        cand.violation = v;
                        rp = cand;
                        rp.notes.push(format!("step {} replaced by a fresh input", i));
                        i = i.min(rp.case.prog.main().output);
                        break;
                    }
                }
            }
        }
        // inputs nothing depends on any more
        if left > 0 {
            if let Some(c2) = drop_unused_inputs(&rp.case) {
                let mut cand = rp.clone();
                cand.case = c2;
                if let Some(v) = try_candidate(&cand, &mut left) {
                    cand.violation = v;
                    rp = cand;
                    rp.notes.push("unused inputs dropped".into());
                }
            }
        }
    }
    // (3d) shrink the shapes of array-typed inputs: each dimension to 1, else to half (the elements that remain keep
    // their values); a candidate the graph API rejects (a Reshape or constant that no longer fits) is not tried
    for k in 0..rp.case.inputs.len() {
        let mut progress = true;
        while progress && left > 0 {
            progress = false;
            let rank = match rp.case.prog.input_types().get(k) {
                Some(Type::Array(s, _)) => s.len(),
                _ => 0,
            };
            for dim in 0..rank {
                let cur = match &rp.case.prog.input_types()[k] {
                    Type::Array(s, _) => s[dim],
                    _ => 1,
                };
                if cur <= 1 {
                    continue;
                }
                for new in [1u64, cur / 2] {
                    if new >= cur || new == 0 || left == 0 {
                        continue;
                    }
                    if let Some(c2) = shrink_input_dim(&rp.case, k, dim, new) {
                        let mut cand = rp.clone();
                        cand.case = c2;
                        if let Some(v) = try_candidate(&cand, &mut left) {
                            cand.violation = v;
                            rp = cand;
                            rp.notes.push(format!("input {} dimension {} shrunk {} -> {}", k, dim, cur, new));
                            progress = true;
                            break;
                        }
                    }
                }
            }
        }
    }
    // (4) inputs -> zeros / ones
    for k in 0..rp.case.inputs.len() {
        let t = rp.case.prog.input_types()[k].clone();
        for x in [0u128, 1u128] {
            let mut cand = rp.clone();
            cand.case.inputs[k] = crate::vals::const_value(&t, x);
            if cand.case.inputs[k] == rp.case.inputs[k] {
                continue;
            }
            if let Some(v) = try_candidate(&cand, &mut left) {
                cand.violation = v;
                rp = cand;
                break;
            }
        }
    }
    // (5) outputs -> one party; inline -> simple
    if rp.case.outputs.len() > 1 {
        for p in rp.case.outputs.clone() {
            let mut cand = rp.clone();
            cand.case.outputs = vec![p];
            if let Some(v) = try_candidate(&cand, &mut left) {
                cand.violation = v;
                rp = cand;
                break;
            }
        }
    }
    if rp.case.inline != crate::exec::Inline::Simple {
        let mut cand = rp.clone();
        cand.case.inline = crate::exec::Inline::Simple;
        if let Some(v) = try_candidate(&cand, &mut left) {
            cand.violation = v;
            rp = cand;
        }
    }
    rp.minimised = true;
    rp.program_summary = rp.case.prog.summary();
    rp.notes.push(format!("minimiser used {} of {} re-runs", budget - left, budget));
    rp
}

/// Steps of the main graph reachable from the output, plus every Input step; None if nothing can be dropped.
fn drop_dead_steps(case: &Case) -> Option<Case> {
    drop_steps(case, true)
}

fn drop_unused_inputs(case: &Case) -> Option<Case> {
    drop_steps(case, false)
}

fn drop_steps(case: &Case, keep_inputs: bool) -> Option<Case> {
    let m = case.prog.main();
    let n = m.steps.len();
    if !m.node_names.is_empty() || !m.node_annotations.is_empty() {
        return None;
    }
    let mut live = vec![false; n];
    let mut stack = vec![m.output];
    while let Some(i) = stack.pop() {
        if i >= n || live[i] {
            continue;
        }
        live[i] = true;
        stack.extend(m.steps[i].deps.iter().cloned());
    }
    let mut kept_inputs = 0;
    for (i, st) in m.steps.iter().enumerate() {
        if matches!(st.op, Operation::Input(_)) {
            if keep_inputs {
                live[i] = true;
            }
            if live[i] {
                kept_inputs += 1;
            }
        }
    }
    if live.iter().all(|x| *x) || kept_inputs == 0 {
        return None;
    }
    let mut newidx = vec![usize::MAX; n];
    let mut steps = vec![];
    let mut owners = vec![];
    let mut inputs = vec![];
    let mut k = 0;
    for (i, st) in m.steps.iter().enumerate() {
        let is_input = matches!(st.op, Operation::Input(_));
        if live[i] {
            newidx[i] = steps.len();
            let mut st2 = st.clone();
            st2.deps = st.deps.iter().map(|d| newidx[*d]).collect();
            steps.push(st2);
            if is_input {
                owners.push(case.owners[k]);
                inputs.push(case.inputs[k].clone());
            }
        }
        if is_input {
            k += 1;
        }
    }
    let mut c2 = case.clone();
    {
        let mm = c2.prog.main_mut();
        mm.steps = steps;
        mm.output = newidx[m.output];
    }
    c2.owners = owners;
    c2.inputs = inputs;
    Some(c2)
}

/// The case in which dimension `dim` of the k-th (array-typed) program input has length `new`; the surviving
/// elements keep their values. None if the input is not an array or the program no longer builds.
fn shrink_input_dim(case: &Case, k: usize, dim: usize, new: u64) -> Option<Case> {
    let old_t = case.prog.input_types().get(k)?.clone();
    let (shape, st) = match &old_t {
        Type::Array(s, st) => (s.clone(), *st),
        _ => return None,
    };
    if dim >= shape.len() || new == 0 || new >= shape[dim] {
        return None;
    }
    let mut ns = shape.clone();
    ns[dim] = new;
    let old = crate::vals::dec(case.inputs.get(k)?, &old_t);
    let total: u64 = ns.iter().product();
    let mut vals = Vec::with_capacity(total as usize);
    for flat in 0..total {
        // multi-index of `flat` in the new shape -> flat index in the old shape
        let mut rem = flat;
        let mut idx = vec![0u64; ns.len()];
        for d in (0..ns.len()).rev() {
            idx[d] = rem % ns[d];
            rem /= ns[d];
        }
        let mut of = 0u64;
        for d in 0..shape.len() {
            of = of * shape[d] + idx[d];
        }
        vals.push(*old.get(of as usize)?);
    }
    let new_t = Type::Array(ns, st);
    let mut c2 = case.clone();
    {
        let mm = c2.prog.main_mut();
        let mut seen = 0;
        for s in mm.steps.iter_mut() {
            if let Operation::Input(_) = s.op {
                if seen == k {
                    s.op = Operation::Input(new_t.clone());
                    break;
                }
                seen += 1;
            }
        }
    }
    c2.inputs[k] = crate::vals::enc(&vals, st);
    c2.prog.build().ok()?;
    Some(c2)
}

/// The case in which step `i` of the main graph is an Input of the same type, provisioned with the value the step has
/// in the plaintext evaluation of the source program.
fn step_to_input(case: &Case, i: usize, owner: crate::exec::Owner) -> Option<Case> {
    use ciphercore_base::custom_ops::run_instantiation_pass;
    let mut p2 = case.prog.clone();
    {
        let mm = p2.main_mut();
        mm.output = i;
        mm.steps.truncate(i + 1);
    }
    // the prefix must still contain every input (inputs declared later are not reachable by evaluate_context)
    let n_in_prefix = p2.input_types().len();
    let built = p2.build().ok()?;
    let t = built.nodes.last()?.get(i)?.get_type().ok()?;
    let ins: Vec<Value> = case.inputs[..n_in_prefix].to_vec();
    let ctx = built.context.clone();
    let val = crate::trisim::guarded(move || {
        let inst = run_instantiation_pass(ctx)?.get_context();
        let mut ev = crate::exec::det_evaluator(1);
        ev.evaluate_context(inst, ins)
    })
    .ok()?
    .ok()?;
    let mut c2 = case.clone();
    c2.prog.main_mut().steps[i] = crate::dsl::Step { op: Operation::Input(t), deps: vec![], gdeps: vec![] };
    c2.owners.insert(n_in_prefix, owner);
    c2.inputs.insert(n_in_prefix, val);
    Some(c2)
}

pub struct TriCaseOut {
    pub stats: Stats,
    pub violation: Option<TriReplay>,
    pub sample: Option<serde_json::Value>,
}

pub fn case_sample(case: &Case, c: &Compiled, extra: serde_json::Value) -> serde_json::Value {
    serde_json::json!({
        "program": case.prog.summary(),
        "owners": format!("{:?}", case.owners),
        "output_parties": case.outputs,
        "inline": format!("{:?}", case.inline),
        "inputs": case.prog.input_types().iter().zip(case.inputs.iter()).map(|(t, v)| crate::vals::render(t, v)).collect::<Vec<_>>(),
        "compiled_nodes": c.gv.nodes.len(),
        "sends": c.gv.num_sends(),
        "run": extra,
    })
}

pub fn mk_replay(args: &Args, prop: &str, idx: usize, mode: &str, case: &Case, c: &Compiled, junk: &JunkPlan, dealer_seed: u64, cfg: &RunCfg, choices: &[u32], v: Violation) -> TriReplay {
    TriReplay {
        property: prop.into(),
        engine: "trisim".into(),
        seed: args.seed,
        case_index: idx as u64,
        mode: mode.into(),
        case: case.clone(),
        junk: junk.clone(),
        dealer_seed,
        cfg: cfg.clone(),
        choices: choices.to_vec(),
        violation: v,
        graph_shape_hash: c.gv.shape_hash(),
        minimised: false,
        notes: vec![],
        program_summary: case.prog.summary(),
    }
}

pub fn nontrivial_key(case: &Case, c: &Compiled, junk: &JunkPlan, ev_hash: u64) -> Option<u64> {
    if !nontrivial(case, c) {
        return None;
    }
    let h = crate::rng::hash_str(&format!("{}|{:?}|{:?}|{:?}|{:?}", case.prog.summary(), case.owners, case.outputs, case.inline, junk.kind));
    Some(combine(h, ev_hash))
}

// ---------------------------------------------------------------------------------------------
// Known findings (genuine defects recorded, not repaired): attribution by call-site signature
// ---------------------------------------------------------------------------------------------

/// Which steps of the main graph carry private data (depend on a non-public input).
pub fn private_steps(case: &Case) -> Vec<bool> {
    use ciphercore_base::graphs::Operation as O;
    let m = case.prog.main();
    let mut private = vec![false; m.steps.len()];
    let mut k = 0;
    for (i, st) in m.steps.iter().enumerate() {
        if let O::Input(_) = st.op {
            private[i] = case.owners.get(k).map(|o| *o != crate::exec::Owner::Public).unwrap_or(false);
            k += 1;
        } else {
            private[i] = st.deps.iter().any(|d| private[*d]);
        }
    }
    private
}

/// Returns the id of the listed finding that explains this violation, if any. The predicates are
/// deliberately narrow: the failing call site must be present in the program AND the symptom must
/// be the recorded one; anything else is reported as a violation.
pub fn known_match(case: &Case, v: &Violation) -> Option<&'static str> {
    use ciphercore_base::graphs::Operation as O;
    if std::env::var("VERIF_NO_KNOWN").is_ok() {
        return None;
    }
    // KF-PRIVATE-PERMUTATION: ApplyPermutation whose permutation operand is private. The compiler
    // shares it additively, the protocol needs a composition sharing p0*p1*p2, so the run fails
    // with a "valid permutation" error (never a wrong value).
    if (v.detail.contains("valid permutation") || v.detail.contains("Incorrect index")) && matches!(v.class.as_str(), "output-error" | "output-undefined" | "shared-output-slot-undefined") {
        let private = private_steps(case);
        let m = case.prog.main();
        let hit = m.steps.iter().any(|st| matches!(st.op, O::ApplyPermutation(_)) && st.deps.len() == 2 && private[st.deps[1]]);
        if hit {
            return Some("KF-PRIVATE-PERMUTATION");
        }
    }
    None
}

/// Replays the witnesses of the listed findings of `prop`; prints one KNOWN-FINDING line per finding
/// that still reproduces. Never writes the findings file.
pub fn report_known_findings(prop: &str) {
    let kf = crate::harness::load_known_findings();
    for f in &kf.findings {
        if !f.properties.iter().any(|p| p == prop) {
            continue;
        }
        let rp: Result<TriReplay, _> = serde_json::from_value(f.witness.clone());
        match rp {
            Ok(rp) => {
                let no_known = std::env::var("VERIF_NO_KNOWN").is_ok();
                let _ = no_known;
                match replay_tri(&rp) {
                    Ok(Some(v)) if known_match(&rp.case, &v).map(|id| id == f.id).unwrap_or(false) => {
                        println!("KNOWN-FINDING: property={} {} [{}]", prop, f.what, f.id);
                    }
                    Ok(Some(v)) => {
                        println!("note: witness of {} now fails differently: {} — {}", f.id, v.class, v.detail);
                    }
                    Ok(None) => println!("note: finding {} no longer reproduces on its witness", f.id),
                    Err(e) => println!("note: witness of {} cannot be replayed: {}", f.id, e),
                }
            }
            Err(e) => println!("note: witness of {} cannot be parsed: {}", f.id, e),
        }
    }
}

//! C03: a party's view reveals nothing beyond its own inputs and outputs.
//!
//! Exact mode: the PRF is idealised as a random oracle inside the simulator (keys are symbolic
//! identities, every (key, counter) pair is an independent tape slot). For bit-typed micro
//! programs the simulator enumerates EVERY tape (all live slot bits, found by a sound structural
//! taint analysis) for EVERY input assignment and compares the multisets of the observer's view
//! between input assignments that agree on the observer's own inputs and output.
//!
//! Sampled mode: real AES PRF, many random tapes per world, conservative two-sample chi-square
//! tests on byte projections of everything the observer holds.

use crate::exec::{compile_case, reference, Case, CompileOutcome, Compiled, Inline, JunkKind, JunkPlan, Owner, Violation};
use crate::dsl::{GraphD, Prog, Step};
use crate::harness::{run_cases, write_evidence, write_replay, Args, EvidenceOut, Tier};
use crate::rng::{combine, Chooser, Rng};
use crate::trisim::{GraphView, RandomOracle, RunCfg, Sim, Status, PV};
use crate::vals::{children_types, enc, is_leaf_type, num_elems, st_bits};
use ciphercore_base::data_types::{array_type, scalar_type, Type, BIT};
use ciphercore_base::data_values::Value;
use ciphercore_base::graphs::Operation;
use serde::{Deserialize, Serialize};
use std::cell::RefCell;
use std::collections::{BTreeMap, BTreeSet, HashMap};

// ---------------------------------------------------------------------------------------------
// Idealised oracle
// ---------------------------------------------------------------------------------------------

#[derive(Clone, Debug, PartialEq, Eq, PartialOrd, Ord)]
enum SlotKey {
    Prf { key: Vec<u8>, iv: u64 },
    Rand { p: usize, node: usize },
    Dealer { input: usize, share: usize },
}

#[derive(Default)]
struct Ideal {
    slots: BTreeMap<SlotKey, usize>,
    bits_needed: Vec<usize>,
    /// slot -> bit values (missing = 0)
    tape: Vec<Vec<u8>>,
    node_slot: BTreeMap<(usize, usize), usize>,
    unsupported: Option<String>,
}

fn key_type() -> Type {
    array_type(vec![128], BIT)
}

fn type_bits(t: &Type) -> usize {
    if is_leaf_type(t) {
        num_elems(t) * st_bits(t.get_scalar_type()) as usize
    } else {
        children_types(t).iter().map(type_bits).sum()
    }
}

/// Builds a value of type t from a bit stream (prefix-consistent: a longer type extends a shorter one).
fn value_from_bits(t: &Type, bits: &mut dyn Iterator<Item = u8>) -> Value {
    if is_leaf_type(t) {
        let st = t.get_scalar_type();
        let w = st_bits(st);
        let vals: Vec<u128> = (0..num_elems(t))
            .map(|_| {
                let mut x = 0u128;
                for i in 0..w {
                    x |= (bits.next().unwrap_or(0) as u128) << i;
                }
                x
            })
            .collect();
        enc(&vals, st)
    } else {
        Value::from_vector(children_types(t).iter().map(|c| value_from_bits(c, bits)).collect())
    }
}

impl Ideal {
    fn slot(&mut self, k: SlotKey, bits: usize) -> usize {
        let n = self.slots.len();
        let id = *self.slots.entry(k).or_insert(n);
        if id == self.bits_needed.len() {
            self.bits_needed.push(0);
        }
        if self.tape.len() <= id {
            self.tape.resize(id + 1, vec![]);
        }
        self.bits_needed[id] = self.bits_needed[id].max(bits);
        id
    }
    fn value(&self, id: usize, t: &Type) -> Value {
        let tape = &self.tape[id];
        let mut it = tape.iter().cloned().chain(std::iter::repeat(0u8));
        value_from_bits(t, &mut it)
    }
}

impl RandomOracle for Ideal {
    fn random(&mut self, p: usize, node: usize, ty: &Type) -> Option<Value> {
        if *ty == key_type() {
            // symbolic key identity (party, node): a distinct 128-bit tag
            let mut b = vec![0xC3u8; 16];
            b[1] = p as u8;
            b[2..10].copy_from_slice(&(node as u64).to_le_bytes());
            return Some(Value::from_bytes(b));
        }
        let id = self.slot(SlotKey::Rand { p, node }, type_bits(ty));
        self.node_slot.insert((p, node), id);
        Some(self.value(id, ty))
    }
    fn prf(&mut self, p: usize, node: usize, key: &Value, iv: u64, ty: &Type) -> Option<Value> {
        let kb = crate::vals::as_bytes(key).unwrap_or_default();
        let id = self.slot(SlotKey::Prf { key: kb, iv }, type_bits(ty));
        self.node_slot.insert((p, node), id);
        Some(self.value(id, ty))
    }
}

// ---------------------------------------------------------------------------------------------
// Exact mode
// ---------------------------------------------------------------------------------------------

#[derive(Clone, Debug, Serialize, Deserialize)]
pub struct C03Replay {
    pub property: String,
    pub engine: String,
    pub mode: String,
    pub seed: u64,
    pub case_index: u64,
    pub case: Case,
    pub observer: usize,
    pub world_a: Vec<Value>,
    pub world_b: Vec<Value>,
    pub violation: Violation,
    #[serde(default)]
    pub program_summary: String,
    #[serde(default)]
    pub samples: usize,
}

fn all_values(t: &Type) -> Vec<Value> {
    // all values of a small bit type
    let n = type_bits(t);
    (0..(1u64 << n))
        .map(|x| {
            let bits: Vec<u8> = (0..n).map(|i| ((x >> i) & 1) as u8).collect();
            value_from_bits(t, &mut bits.into_iter())
        })
        .collect()
}

struct ExactSetup {
    c: Compiled,
    /// slot structure discovered in the all-zero pass
    n_slots: usize,
    bits_needed: Vec<usize>,
    node_slot: BTreeMap<(usize, usize), usize>,
    dealer_slots: BTreeMap<(usize, usize), usize>,
}

/// Per-party inputs with the dealer's shares taken from tape slots (bits: XOR sharing).
fn ideal_inputs(case: &Case, c: &Compiled, assign: &[Value], ideal: &mut Ideal) -> Vec<Vec<PV>> {
    let mut out = vec![];
    for (k, t) in c.input_types.iter().enumerate() {
        let v = &assign[k];
        let per: Vec<PV> = match case.owners[k] {
            Owner::Public => (0..3).map(|_| PV::Leaf(v.clone())).collect(),
            Owner::Party(o) => (0..3usize).map(|p| if p == o as usize { PV::Leaf(v.clone()) } else { PV::Leaf(crate::vals::const_value(t, 0)) }).collect(),
            Owner::Shared => {
                let b = type_bits(t);
                let i0 = ideal.slot(SlotKey::Dealer { input: k, share: 0 }, b);
                let i1 = ideal.slot(SlotKey::Dealer { input: k, share: 1 }, b);
                let s0 = ideal.value(i0, t);
                let s1 = ideal.value(i1, t);
                let s2 = crate::vals::sub_values(t, &crate::vals::sub_values(t, v, &s0), &s1);
                let shares = [s0, s1, s2];
                (0..3usize)
                    .map(|p| PV::Tup((0..3usize).map(|s| if s == p || s == (p + 1) % 3 { PV::Leaf(shares[s].clone()) } else { PV::Leaf(crate::vals::const_value(t, 0)) }).collect()))
                    .collect()
            }
        };
        out.push(per);
    }
    out
}

/// Sound structural taint: which tape slots can influence the value of node n at party p.
fn taints(case: &Case, gv: &GraphView, node_slot: &BTreeMap<(usize, usize), usize>, dealer_slots: &BTreeMap<(usize, usize), usize>) -> Vec<Vec<BTreeSet<usize>>> {
    let n = gv.nodes.len();
    let mut t: Vec<Vec<BTreeSet<usize>>> = vec![vec![BTreeSet::new(); n]; 3];
    let mut input_k = 0usize;
    for i in 0..n {
        let ni = &gv.nodes[i];
        let mut cur: Vec<BTreeSet<usize>> = vec![BTreeSet::new(); 3];
        for p in 0..3 {
            match &ni.op {
                Operation::Input(_) => {
                    if case.owners[input_k] == Owner::Shared {
                        // shares p and p+1; share 2 depends on both dealer slots
                        for s in [p, (p + 1) % 3] {
                            if s < 2 {
                                cur[p].insert(dealer_slots[&(input_k, s)]);
                            } else {
                                cur[p].insert(dealer_slots[&(input_k, 0)]);
                                cur[p].insert(dealer_slots[&(input_k, 1)]);
                            }
                        }
                    }
                }
                Operation::Random(_) | Operation::PRF(_, _) => {
                    if let Some(s) = node_slot.get(&(p, i)) {
                        cur[p].insert(*s);
                    }
                }
                _ => {
                    for d in &ni.deps {
                        let x = t[p][*d].clone();
                        cur[p].extend(x);
                    }
                }
            }
        }
        if ni.op.is_input() {
            input_k += 1;
        }
        for (s, r) in &ni.sends {
            if s != r {
                cur[*r] = cur[*s].clone();
            }
        }
        for p in 0..3 {
            t[p][i] = std::mem::take(&mut cur[p]);
        }
    }
    t
}

fn view_hash(gv: &GraphView, run: &crate::trisim::RunResult, o: usize, recipient: bool, view_nodes: &[usize], case: &Case, inputs: &[Vec<PV>]) -> u64 {
    let mut h = 0x5EED_u64;
    // held shares of shared inputs (received from the dealer)
    for (k, ow) in case.owners.iter().enumerate() {
        if *ow == Owner::Shared {
            h = combine(h, inputs[k][o].child(o).hash());
            h = combine(h, inputs[k][o].child((o + 1) % 3).hash());
        }
    }
    for m in &run.msgs {
        if m.to == o {
            h = combine(h, combine(m.node as u64, m.payload.hash()));
        }
    }
    for n in view_nodes {
        if let Some(v) = run.values[o][*n].as_ref() {
            h = combine(h, combine(*n as u64, v.hash()));
        }
    }
    if recipient {
        h = combine(h, run.out[o].hash());
    }
    let _ = gv;
    h
}

pub struct ExactResult {
    pub violation: Option<(usize, Vec<Value>, Vec<Value>, String)>,
    pub runs: u64,
    pub live_bits: Vec<usize>,
    pub classes: usize,
    pub skipped: Option<String>,
    pub worlds: usize,
}

/// Exhaustive comparison for one compiled case. `max_bits`: enumeration limit on live tape bits.
pub fn exact_check(case: &Case, max_bits: usize, max_runs: u64) -> ExactResult {
    let mut res = ExactResult { violation: None, runs: 0, live_bits: vec![], classes: 0, skipped: None, worlds: 0 };
    let c = match compile_case(case) {
        CompileOutcome::Ok(c) => c,
        CompileOutcome::Rejected(e) => {
            res.skipped = Some(format!("compiler rejected: {}", e));
            return res;
        }
        CompileOutcome::Panic(p) => {
            res.skipped = Some(format!("compiler panic: {}", p));
            return res;
        }
    };
    if c.gv.nodes.iter().any(|n| matches!(n.op, Operation::PermutationFromPRF(_, _) | Operation::RandomPermutation(_) | Operation::CuckooToPermutation | Operation::DecomposeSwitchingMap(_))) {
        res.skipped = Some("uses permutation sampling (not modelled by the idealised oracle)".into());
        return res;
    }
    // all input assignments
    let domains: Vec<Vec<Value>> = c.input_types.iter().map(all_values).collect();
    let total: usize = domains.iter().map(|d| d.len()).product();
    if total > 256 {
        res.skipped = Some("too many input assignments".into());
        return res;
    }
    let mut assigns: Vec<Vec<Value>> = vec![vec![]];
    for d in &domains {
        let mut next = vec![];
        for a in &assigns {
            for v in d {
                let mut b = a.clone();
                b.push(v.clone());
                next.push(b);
            }
        }
        assigns = next;
    }
    res.worlds = assigns.len();
    let refs: Vec<Option<Value>> = assigns.iter().map(|a| reference(&c, a).ok()).collect();
    // discovery pass (all-zero tape)
    let mut cfg = RunCfg::independent([1, 2, 3]);
    cfg.keep_values = true;
    let ideal = RefCell::new(Ideal::default());
    let inputs0 = ideal_inputs(case, &c, &assigns[0], &mut ideal.borrow_mut());
    {
        let mut sim = Sim::new(&c.gv, cfg.clone());
        sim.oracle = Some(&ideal);
        let mut ch = Chooser::replay(vec![]);
        let r = sim.run(&inputs0, &mut ch);
        res.runs += 1;
        if r.status != Status::Completed {
            res.skipped = Some(format!("discovery run did not complete: {:?}", r.status));
            return res;
        }
    }
    let (node_slot, bits_needed, dealer_slots) = {
        let id = ideal.borrow();
        let ds: BTreeMap<(usize, usize), usize> = id.slots.iter().filter_map(|(k, v)| if let SlotKey::Dealer { input, share } = k { Some(((*input, *share), *v)) } else { None }).collect();
        (id.node_slot.clone(), id.bits_needed.clone(), ds)
    };
    let tnt = taints(case, &c.gv, &node_slot, &dealer_slots);
    let setup = ExactSetup { c, n_slots: bits_needed.len(), bits_needed, node_slot, dealer_slots };
    let c = &setup.c;
    for o in 0..3usize {
        let recipient = case.outputs.contains(&(o as u8));
        // live slots: everything that can influence what o receives, its held shares and its output
        let mut live: BTreeSet<usize> = BTreeSet::new();
        for (i, ni) in c.gv.nodes.iter().enumerate() {
            if ni.sends.iter().any(|(s, r)| *r == o && s != r) {
                live.extend(tnt[o][i].iter());
            }
        }
        if recipient {
            live.extend(tnt[o][c.gv.output].iter());
        }
        for (k, ow) in case.owners.iter().enumerate() {
            if *ow == Owner::Shared {
                for s in [o, (o + 1) % 3] {
                    if s < 2 {
                        live.insert(setup.dealer_slots[&(k, s)]);
                    } else {
                        live.insert(setup.dealer_slots[&(k, 0)]);
                        live.insert(setup.dealer_slots[&(k, 1)]);
                    }
                }
            }
        }
        // o's own randomness that shares a slot with the above is part of the view
        let view_nodes: Vec<usize> = setup.node_slot.iter().filter(|((p, _), s)| *p == o && live.contains(s)).map(|((_, n), _)| *n).collect();
        let live_list: Vec<(usize, usize)> = live.iter().flat_map(|s| (0..setup.bits_needed[*s]).map(move |b| (*s, b))).collect();
        let nbits = live_list.len();
        res.live_bits.push(nbits);
        if nbits > max_bits {
            res.skipped = Some(format!("observer {} has {} live tape bits (> {})", o, nbits, max_bits));
            continue;
        }
        if (assigns.len() as u64) << nbits > max_runs {
            res.skipped = Some(format!("observer {}: {} runs needed (> budget)", o, (assigns.len() as u64) << nbits));
            continue;
        }
        // classes of input assignments
        let mut classes: BTreeMap<u64, Vec<usize>> = BTreeMap::new();
        for (ai, a) in assigns.iter().enumerate() {
            let mut h = 17u64;
            for (k, ow) in case.owners.iter().enumerate() {
                let own = match ow {
                    Owner::Public => true,
                    Owner::Party(p) => *p as usize == o,
                    Owner::Shared => false,
                };
                if own {
                    h = combine(h, combine(k as u64, crate::vals::value_hash(&a[k])));
                }
            }
            if recipient {
                match &refs[ai] {
                    Some(r) => h = combine(h, crate::vals::value_hash(r)),
                    None => continue,
                }
            }
            classes.entry(h).or_default().push(ai);
        }
        res.classes += classes.len();
        for members in classes.values() {
            if members.len() < 2 {
                continue;
            }
            let mut dists: Vec<HashMap<u64, u32>> = vec![];
            for ai in members {
                let mut d: HashMap<u64, u32> = HashMap::new();
                for tape in 0..(1u64 << nbits) {
                    // the tape: bits of the live slots (all other slots read as zeros)
                    let mut overlay: BTreeMap<usize, Vec<u8>> = BTreeMap::new();
                    for (bi, (s, b)) in live_list.iter().enumerate() {
                        let e = overlay.entry(*s).or_insert_with(|| vec![0u8; setup.bits_needed[*s]]);
                        e[*b] = ((tape >> bi) & 1) as u8;
                    }
                    let or = RefCell::new(FixedIdeal { base: &setup, tape: overlay, slots: BTreeMap::new(), order: vec![] });
                    let inputs = fixed_inputs(case, c, &assigns[*ai], &or.borrow());
                    let mut sim = Sim::new(&c.gv, cfg.clone());
                    sim.oracle = Some(&or);
                    let mut ch = Chooser::replay(vec![]);
                    let r = sim.run(&inputs, &mut ch);
                    res.runs += 1;
                    if r.status != Status::Completed {
                        res.skipped = Some(format!("run did not complete: {:?}", r.status));
                        return res;
                    }
                    let vh = view_hash(&c.gv, &r, o, recipient, &view_nodes, case, &inputs);
                    *d.entry(vh).or_insert(0) += 1;
                }
                dists.push(d);
            }
            for j in 1..dists.len() {
                if dists[j] != dists[0] {
                    let only_a = dists[0].iter().filter(|(k, v)| dists[j].get(*k) != Some(*v)).count();
                    res.violation = Some((
                        o,
                        assigns[members[0]].clone(),
                        assigns[members[j]].clone(),
                        format!(
                            "observer {}: the distribution of its view over all {} tapes differs between two input assignments that agree on its own inputs{}: {} distinct views vs {} distinct views, {} view values with different multiplicity",
                            o,
                            1u64 << nbits,
                            if recipient { " and output" } else { "" },
                            dists[0].len(),
                            dists[j].len(),
                            only_a
                        ),
                    ));
                    return res;
                }
            }
        }
    }
    res
}

/// Oracle with a fixed tape laid out by the slots discovered in the setup pass (keyed by SlotKey
/// through the node->slot map of the discovery run, which is tape independent).
struct FixedIdeal<'a> {
    base: &'a ExactSetup,
    tape: BTreeMap<usize, Vec<u8>>,
    slots: BTreeMap<SlotKey, usize>,
    order: Vec<usize>,
}

impl<'a> FixedIdeal<'a> {
    fn bits_of(&self, slot: usize) -> Vec<u8> {
        self.tape.get(&slot).cloned().unwrap_or_default()
    }
}

impl<'a> RandomOracle for FixedIdeal<'a> {
    fn random(&mut self, p: usize, node: usize, ty: &Type) -> Option<Value> {
        if *ty == key_type() {
            let mut b = vec![0xC3u8; 16];
            b[1] = p as u8;
            b[2..10].copy_from_slice(&(node as u64).to_le_bytes());
            return Some(Value::from_bytes(b));
        }
        let slot = *self.base.node_slot.get(&(p, node))?;
        let bits = self.bits_of(slot);
        let mut it = bits.into_iter().chain(std::iter::repeat(0u8));
        Some(value_from_bits(ty, &mut it))
    }
    fn prf(&mut self, p: usize, node: usize, key: &Value, iv: u64, ty: &Type) -> Option<Value> {
        // the slot of (p, node) was fixed in the discovery pass; the key flow is tape independent
        let slot = match self.base.node_slot.get(&(p, node)) {
            Some(s) => *s,
            None => {
                let kb = crate::vals::as_bytes(key).unwrap_or_default();
                let n = self.slots.len() + self.base.n_slots;
                *self.slots.entry(SlotKey::Prf { key: kb, iv }).or_insert(n)
            }
        };
        self.order.push(slot);
        let bits = self.bits_of(slot);
        let mut it = bits.into_iter().chain(std::iter::repeat(0u8));
        Some(value_from_bits(ty, &mut it))
    }
}

fn fixed_inputs(case: &Case, c: &Compiled, assign: &[Value], or: &FixedIdeal) -> Vec<Vec<PV>> {
    let mut out = vec![];
    for (k, t) in c.input_types.iter().enumerate() {
        let v = &assign[k];
        let per: Vec<PV> = match case.owners[k] {
            Owner::Public => (0..3).map(|_| PV::Leaf(v.clone())).collect(),
            Owner::Party(o) => (0..3usize).map(|p| if p == o as usize { PV::Leaf(v.clone()) } else { PV::Leaf(crate::vals::const_value(t, 0)) }).collect(),
            Owner::Shared => {
                let mk = |share: usize| -> Value {
                    let slot = or.base.dealer_slots[&(k, share)];
                    let bits = or.bits_of(slot);
                    let mut it = bits.into_iter().chain(std::iter::repeat(0u8));
                    value_from_bits(t, &mut it)
                };
                let s0 = mk(0);
                let s1 = mk(1);
                let s2 = crate::vals::sub_values(t, &crate::vals::sub_values(t, v, &s0), &s1);
                let shares = [s0, s1, s2];
                (0..3usize)
                    .map(|p| PV::Tup((0..3usize).map(|s| if s == p || s == (p + 1) % 3 { PV::Leaf(shares[s].clone()) } else { PV::Leaf(crate::vals::const_value(t, 0)) }).collect()))
                    .collect()
            }
        };
        out.push(per);
    }
    out
}

/// Bit-typed micro programs: <= 3 operations out of Add, Multiply, Dot/Matmul on tiny shapes, Sum, tuple plumbing.
pub fn gen_micro(rng: &mut Rng) -> Case {
    loop {
        let n_in = 2 + rng.usize_below(2);
        let shape_kind = rng.below(6);
        let arr = shape_kind == 0;
        let mat = shape_kind == 1;
        let t = if arr { array_type(vec![2], BIT) } else if mat { array_type(vec![1, 1], BIT) } else { scalar_type(BIT) };
        let mut steps: Vec<Step> = (0..n_in).map(|_| Step { op: Operation::Input(t.clone()), deps: vec![], gdeps: vec![] }).collect();
        if arr && n_in > 2 {
            continue;
        }
        let n_ops = 1 + rng.usize_below(3);
        for _ in 0..n_ops {
            let k = steps.len();
            let a = rng.usize_below(k);
            let b = rng.usize_below(k);
            let op = match rng.below(6) {
                0 | 1 => Operation::Add,
                2 | 3 | 4 => Operation::Multiply,
                _ => {
                    if arr {
                        Operation::Dot
                    } else if mat {
                        match rng.below(3) {
                            0 => Operation::Matmul,
                            1 => Operation::Gemm(rng.chance(1, 2), rng.chance(1, 2)),
                            _ => Operation::Dot,
                        }
                    } else {
                        Operation::Multiply
                    }
                }
            };
            steps.push(Step { op, deps: vec![a, b], gdeps: vec![] });
        }
        let mut output = steps.len() - 1;
        if rng.chance(1, 6) {
            let k = steps.len();
            steps.push(Step { op: Operation::CreateTuple, deps: vec![k - 1, rng.usize_below(k)], gdeps: vec![] });
            output = k;
        }
        let prog = Prog { graphs: vec![GraphD { steps, output, ..Default::default() }] };
        if prog.build().is_err() {
            continue;
        }
        let owners: Vec<Owner> = (0..n_in)
            .map(|_| match rng.below(10) {
                0..=2 => Owner::Party(0),
                3..=5 => Owner::Party(1),
                6..=7 => Owner::Party(2),
                8 => Owner::Public,
                _ => Owner::Shared,
            })
            .collect();
        let outputs = crate::gen::gen_outputs(rng);
        let inline = Inline::Simple;
        let inputs: Vec<Value> = (0..n_in).map(|_| crate::vals::const_value(&t, 0)).collect();
        return Case { prog, owners, outputs, inline, inputs };
    }
}

// ---------------------------------------------------------------------------------------------
// Sampled mode
// ---------------------------------------------------------------------------------------------

/// Byte projections of everything observer o holds after a run: every leaf node value (low byte of
/// each of the first elements) and pairwise sums of received payloads.
fn projections(gv: &GraphView, run: &crate::trisim::RunResult, o: usize, acc: &mut BTreeMap<(usize, usize), Vec<u32>>) {
    for (i, ni) in gv.nodes.iter().enumerate() {
        if !is_leaf_type(&ni.ty) {
            continue;
        }
        if let Some(PV::Leaf(v)) = run.values[o][i].as_ref() {
            if let Some(b) = crate::vals::as_bytes(v) {
                let st = ni.ty.get_scalar_type();
                let bl = if st == BIT { 1 } else { (st_bits(st) / 8) as usize };
                for e in 0..num_elems(&ni.ty).min(2) {
                    if st == BIT {
                        let bit = b.get(e / 8).map(|x| (x >> (e % 8)) & 1).unwrap_or(0);
                        acc.entry((i, e)).or_insert_with(|| vec![0; 256])[bit as usize] += 1;
                    } else if let Some(x) = b.get(e * bl) {
                        if e == 1 {
                            // difference of the first two entries of one value (low byte): a mask that is shared by the
                            // entries of an array cancels here and leaves the difference of the secrets
                            let d = x.wrapping_sub(b[0]);
                            acc.entry((i, 2000)).or_insert_with(|| vec![0; 256])[d as usize] += 1;
                        }
                        acc.entry((i, e)).or_insert_with(|| vec![0; 256])[*x as usize] += 1;
                        // high byte too
                        if bl > 1 {
                            if let Some(y) = b.get(e * bl + bl - 1) {
                                acc.entry((i, 1000 + e)).or_insert_with(|| vec![0; 256])[*y as usize] += 1;
                            }
                        }
                    }
                }
            }
        }
    }
}

/// Joint projections: (received payload) - (a PRF/Random value the observer computed itself) and
/// (received payload a) -+ (received payload b), for equal leaf types. They expose masks the observer can
/// remove (it holds the key) and shares that add up to a secret. Also: for permutation-valued nodes the
/// observer holds (u64[n] arrays that are permutations), the first entry of p_a o p_b^-1.
fn joint_projections(gv: &GraphView, run: &crate::trisim::RunResult, o: usize, acc: &mut BTreeMap<(usize, usize), Vec<u32>>) {
    let mut bump = |key: (usize, usize), cell: usize| {
        acc.entry(key).or_insert_with(|| vec![0; 256])[cell & 0xff] += 1;
    };
    let leaf = |n: usize| -> Option<(Vec<u128>, &Type)> {
        let t = &gv.nodes[n].ty;
        if !is_leaf_type(t) {
            return None;
        }
        match run.values[o][n].as_ref() {
            Some(PV::Leaf(v)) => Some((crate::vals::dec(v, t), t)),
            _ => None,
        }
    };
    let received: Vec<usize> = run.msgs.iter().filter(|m| m.to == o).map(|m| m.node).collect();
    let own_random: Vec<usize> = (0..gv.nodes.len()).filter(|n| matches!(gv.nodes[*n].op, Operation::PRF(_, _) | Operation::Random(_))).collect();
    let mut budget = 400usize;
    for (ri, r) in received.iter().enumerate() {
        let (rv, rt) = match leaf(*r) {
            Some(x) => x,
            None => continue,
        };
        let mask = crate::vals::st_mask(rt.get_scalar_type());
        for n in own_random.iter() {
            if budget == 0 {
                return;
            }
            if &gv.nodes[*n].ty != rt {
                continue;
            }
            if let Some((nv, _)) = leaf(*n) {
                budget -= 1;
                let d = rv[0].wrapping_sub(nv[0]) & mask;
                bump((1_000_000 + r * 1000 + (n % 1000), 0), d as usize);
            }
        }
        for r2 in received.iter().skip(ri + 1) {
            if budget == 0 {
                return;
            }
            if &gv.nodes[*r2].ty != rt {
                continue;
            }
            if let Some((v2, _)) = leaf(*r2) {
                budget -= 1;
                bump((2_000_000 + r * 1000 + (r2 % 1000), 0), (rv[0].wrapping_add(v2[0]) & mask) as usize);
                bump((2_000_000 + r * 1000 + (r2 % 1000), 1), (rv[0].wrapping_sub(v2[0]) & mask) as usize);
            }
        }
    }
    // permutation-valued nodes held by the observer
    let perms: Vec<(usize, Vec<usize>)> = (0..gv.nodes.len())
        .filter_map(|n| {
            let t = &gv.nodes[n].ty;
            if let Type::Array(sh, st) = t {
                if sh.len() == 1 && *st == ciphercore_base::data_types::UINT64 && sh[0] >= 2 && sh[0] <= 64 {
                    if let Some((v, _)) = leaf(n) {
                        let k = sh[0] as usize;
                        let mut seen = vec![false; k];
                        let ok = v.iter().all(|x| (*x as usize) < k && !std::mem::replace(&mut seen[*x as usize], true));
                        if ok {
                            return Some((n, v.iter().map(|x| *x as usize).collect()));
                        }
                    }
                }
            }
            None
        })
        .collect();
    let mut pbudget = 300usize;
    for (i, (na, pa)) in perms.iter().enumerate() {
        for (nb, pb) in perms.iter().skip(i + 1) {
            if pa.len() != pb.len() || pbudget == 0 {
                continue;
            }
            pbudget -= 1;
            // (pa o pb^-1)[0] and [1]
            let mut inv = vec![0usize; pb.len()];
            for (idx, x) in pb.iter().enumerate() {
                inv[*x] = idx;
            }
            bump((3_000_000 + na * 1000 + (nb % 1000), 0), pa[inv[0]]);
            bump((3_000_000 + na * 1000 + (nb % 1000), 1), pa[inv[1]]);
        }
    }
}

/// Randomness source for the conditioned sampled mode: `Random` nodes are drawn per (party, node); draws in `fixed`
/// come from `fixed_seed` (the same in every run of a batch), all others from `run_seed`. PRF nodes are answered by
/// the real AES PRF.
struct CondOracle<'a> {
    fixed: &'a BTreeSet<(usize, usize)>,
    fixed_seed: u64,
    run_seed: u64,
}

impl<'a> RandomOracle for CondOracle<'a> {
    fn random(&mut self, p: usize, node: usize, ty: &Type) -> Option<Value> {
        let s = if self.fixed.contains(&(p, node)) { self.fixed_seed } else { self.run_seed };
        let mut r = Rng::new(combine(combine(s, p as u64 + 1), node as u64 + 0x5EED));
        Some(crate::vals::random_value(ty, &mut r))
    }
    fn prf(&mut self, _p: usize, _node: usize, _key: &Value, _iv: u64, _ty: &Type) -> Option<Value> {
        None
    }
}

/// The draws (party, Random node) whose value is part of observer `o`'s view as plain key material: every draw of its
/// own, and every draw of another party that reaches `o` through Send-annotated NOPs and tuple plumbing only. Anything
/// computed (masked payloads, PRF outputs) is not traced. Fixing exactly these draws conditions on a part of the view
/// whose distribution does not depend on anybody's input, so the rest of the view must still be distributed alike in
/// two worlds that agree on the observer's inputs and output.
fn observer_key_material(gv: &GraphView, o: usize) -> BTreeSet<(usize, usize)> {
    fn origin(gv: &GraphView, q: usize, n: usize, depth: usize) -> Option<Vec<(usize, usize)>> {
        if depth > 64 {
            return None;
        }
        let ni = &gv.nodes[n];
        match &ni.op {
            Operation::Random(_) => Some(vec![(q, n)]),
            Operation::NOP => match ni.sends.iter().find(|(_, r)| *r == q) {
                Some((s, _)) => origin(gv, *s, ni.deps[0], depth + 1),
                None => origin(gv, q, ni.deps[0], depth + 1),
            },
            Operation::CreateTuple | Operation::CreateVector(_) | Operation::CreateNamedTuple(_) => {
                let mut all = vec![];
                for d in &ni.deps {
                    all.extend(origin(gv, q, *d, depth + 1)?);
                }
                Some(all)
            }
            Operation::TupleGet(i) => {
                // only through a tuple built in the same graph (the element is then known exactly)
                let src = &gv.nodes[ni.deps[0]];
                match &src.op {
                    Operation::CreateTuple => origin(gv, q, *src.deps.get(*i as usize)?, depth + 1),
                    Operation::NOP if src.sends.iter().all(|(_, r)| *r != q) => {
                        let s2 = &gv.nodes[src.deps[0]];
                        if matches!(s2.op, Operation::CreateTuple) {
                            origin(gv, q, *s2.deps.get(*i as usize)?, depth + 1)
                        } else {
                            None
                        }
                    }
                    _ => None,
                }
            }
            _ => None,
        }
    }
    let mut fixed = BTreeSet::new();
    for (n, ni) in gv.nodes.iter().enumerate() {
        if matches!(ni.op, Operation::Random(_)) {
            fixed.insert((o, n));
        }
        if matches!(ni.op, Operation::NOP) {
            for (s, r) in &ni.sends {
                if *r == o && *s != o {
                    if let Some(v) = origin(gv, *s, ni.deps[0], 0) {
                        fixed.extend(v);
                    }
                }
            }
        }
    }
    fixed
}

/// Conservative two-sample chi-square comparison of two families of 256-cell histograms; returns the first key whose
/// histograms differ, with the statistic and the number of cells.
fn compare_histograms(a: &BTreeMap<(usize, usize), Vec<u32>>, b: &BTreeMap<(usize, usize), Vec<u32>>, tests: &mut u64) -> Option<((usize, usize), f64, f64)> {
    for (key, ha) in a {
        if let Some(hb) = b.get(key) {
            let mut chi2 = 0.0f64;
            let mut k = 0.0f64;
            for cidx in 0..256 {
                let (x, y) = (ha[cidx] as f64, hb[cidx] as f64);
                if x + y > 0.0 {
                    chi2 += (x - y).powi(2) / (x + y);
                    k += 1.0;
                }
            }
            *tests += 1;
            if chi2 > k + 2.0 * (40.0 * k).sqrt() + 80.0 {
                return Some((*key, chi2, k));
            }
        }
    }
    None
}

fn describe_projection(c: &Compiled, key: (usize, usize)) -> String {
    if key.0 >= 3_000_000 {
        format!("the relative permutation of the permutation-valued nodes {} and ~{} it holds", (key.0 - 3_000_000) / 1000, (key.0 - 3_000_000) % 1000)
    } else if key.0 >= 2_000_000 {
        format!("the sum/difference of the payloads it receives at nodes {} and ~{}", (key.0 - 2_000_000) / 1000, (key.0 - 2_000_000) % 1000)
    } else if key.0 >= 1_000_000 {
        format!("the payload received at node {} minus its own PRF/Random value at node ~{}", (key.0 - 1_000_000) / 1000, (key.0 - 1_000_000) % 1000)
    } else {
        format!("the value it holds at node {} ({})", key.0, c.gv.nodes[key.0].op)
    }
}

// ---- linear-relation detector (sampled mode) ----------------------------------------------------------------
// Every value the observer holds is a function of its view. If some XOR of low bits of such values (plus a constant)
// is the same in every run of world A, the same must hold - with the same constant - in (almost) every run of a world
// B that agrees on the observer's inputs and output. A share-wise protocol that lets the observer strip a mask
// (it holds the key, or two messages cancel) shows as such a relation whose constant is a bit of somebody's input.

/// Columns: (node, element) of leaf-typed nodes, payloads the observer receives and PRF/Random nodes first.
fn relation_columns(gv: &GraphView, run: &crate::trisim::RunResult, o: usize, cap: usize) -> Vec<(usize, usize)> {
    let received: BTreeSet<usize> = run.msgs.iter().filter(|m| m.to == o).map(|m| m.node).collect();
    let mut first = vec![];
    let mut second = vec![];
    let mut rest = vec![];
    for (i, ni) in gv.nodes.iter().enumerate() {
        if !is_leaf_type(&ni.ty) || num_elems(&ni.ty) == 0 {
            continue;
        }
        let tgt = if received.contains(&i) {
            &mut first
        } else if matches!(ni.op, Operation::PRF(_, _) | Operation::Random(_) | Operation::Input(_)) {
            &mut second
        } else {
            &mut rest
        };
        for e in 0..num_elems(&ni.ty).min(2) {
            tgt.push((i, e));
        }
    }
    first.extend(second);
    first.extend(rest);
    first.truncate(cap);
    first
}

fn lowbit_row(gv: &GraphView, run: &crate::trisim::RunResult, o: usize, cols: &[(usize, usize)]) -> Vec<u64> {
    let words = (cols.len() + 1 + 63) / 64;
    let mut row = vec![0u64; words];
    for (ci, (n, e)) in cols.iter().enumerate() {
        let bit = match run.values[o][*n].as_ref() {
            Some(PV::Leaf(v)) => match crate::vals::as_bytes(v) {
                Some(b) => {
                    let st = gv.nodes[*n].ty.get_scalar_type();
                    if st == BIT {
                        b.get(e / 8).map(|x| (x >> (e % 8)) & 1).unwrap_or(0)
                    } else {
                        let bl = (st_bits(st) / 8) as usize;
                        b.get(e * bl).map(|x| x & 1).unwrap_or(0)
                    }
                }
                None => 0,
            },
            _ => 0,
        };
        if bit == 1 {
            row[ci / 64] |= 1u64 << (ci % 64);
        }
    }
    // constant column
    let cc = cols.len();
    row[cc / 64] |= 1u64 << (cc % 64);
    row
}

/// Basis of { a : row . a = 0 for every row } over GF(2); `ncols` includes the constant column.
fn gf2_kernel(rows: &[Vec<u64>], ncols: usize) -> Vec<Vec<u64>> {
    let words = (ncols + 63) / 64;
    let get = |r: &Vec<u64>, c: usize| (r[c / 64] >> (c % 64)) & 1 == 1;
    // reduced row echelon form of the row space
    let mut piv_rows: Vec<Vec<u64>> = vec![];
    let mut piv_cols: Vec<usize> = vec![];
    for r in rows {
        let mut cur = r.clone();
        for (pr, pc) in piv_rows.iter().zip(piv_cols.iter()) {
            if get(&cur, *pc) {
                for w in 0..words {
                    cur[w] ^= pr[w];
                }
            }
        }
        if let Some(pc) = (0..ncols).find(|c| get(&cur, *c)) {
            // keep the echelon form reduced: clear the new pivot column in the older pivot rows
            for pr in piv_rows.iter_mut() {
                if get(pr, pc) {
                    for w in 0..words {
                        pr[w] ^= cur[w];
                    }
                }
            }
            piv_rows.push(cur);
            piv_cols.push(pc);
        }
    }
    let is_piv: BTreeSet<usize> = piv_cols.iter().cloned().collect();
    let mut basis = vec![];
    for f in 0..ncols {
        if is_piv.contains(&f) {
            continue;
        }
        let mut v = vec![0u64; words];
        v[f / 64] |= 1u64 << (f % 64);
        for (pr, pc) in piv_rows.iter().zip(piv_cols.iter()) {
            if get(pr, f) {
                v[pc / 64] |= 1u64 << (pc % 64);
            }
        }
        basis.push(v);
    }
    basis
}

fn parity_dot(a: &[u64], b: &[u64]) -> bool {
    a.iter().zip(b.iter()).fold(0u32, |acc, (x, y)| acc ^ ((x & y).count_ones() & 1)) == 1
}

/// Relations that hold in every run of world A (elimination rows and, separately, 256 held-out validation rows) are
/// evaluated on the runs of world B; a relation that fails in at least half of them is a difference between the two
/// view distributions. Returns a description of the first such relation.
fn linear_relation_leak(gv: &GraphView, cols: &[(usize, usize)], rows_a: &[Vec<u64>], rows_b: &[Vec<u64>], tests: &mut u64) -> Option<String> {
    let ncols = cols.len() + 1;
    if rows_a.len() < ncols + 64 + 256 || rows_b.len() < 128 {
        return None;
    }
    let (elim, valid) = rows_a.split_at(rows_a.len() - 256);
    let basis = gf2_kernel(elim, ncols);
    if std::env::var("VERIF_DEBUG").is_ok() {
        eprintln!("C03 relations: {} columns, {} rows A, {} rows B, kernel dimension {}", ncols, rows_a.len(), rows_b.len(), basis.len());
    }
    for v in basis {
        if valid.iter().any(|r| parity_dot(r, &v)) {
            continue;
        }
        *tests += 1;
        let bad = rows_b.iter().filter(|r| parity_dot(r, &v)).count();
        if bad * 2 >= rows_b.len() {
            let mut members: Vec<String> = vec![];
            for (ci, (n, e)) in cols.iter().enumerate() {
                if (v[ci / 64] >> (ci % 64)) & 1 == 1 {
                    if members.len() < 8 {
                        members.push(format!("node {} ({}) element {}", n, gv.nodes[*n].op, e));
                    } else {
                        members.push("...".into());
                        break;
                    }
                }
            }
            return Some(format!(
                "the XOR of the low bits of [{}] is the same constant in all {} runs of one world and a different value in {} of {} runs of the other",
                members.join(", "),
                rows_a.len(),
                bad,
                rows_b.len()
            ));
        }
    }
    None
}

pub struct SampledResult {
    pub violation: Option<(usize, String)>,
    pub runs: u64,
    pub tests: u64,
    pub skipped: Option<String>,
    pub conditioned_runs: u64,
}

pub fn sampled_check(case: &Case, world_b: &[Value], n: usize, seed: u64) -> SampledResult {
    let mut res = SampledResult { violation: None, runs: 0, tests: 0, skipped: None, conditioned_runs: 0 };
    let c = match compile_case(case) {
        CompileOutcome::Ok(c) => c,
        _ => {
            res.skipped = Some("not compiled".into());
            return res;
        }
    };
    let (ra, rb) = match (reference(&c, &case.inputs), reference(&c, world_b)) {
        (Ok(a), Ok(b)) => (a, b),
        _ => {
            res.skipped = Some("reference error".into());
            return res;
        }
    };
    let mut cfg = RunCfg::independent([0, 0, 0]);
    cfg.keep_values = true;
    let junk = JunkPlan::uniform(JunkKind::Zeros, 0);
    for o in 0..3usize {
        // the two worlds must agree on o's own inputs and (if recipient) output
        let recipient = case.outputs.contains(&(o as u8));
        // probabilistic truncation makes the output itself a randomised function of the secret (C05): only
        // non-recipients are compared for such programs
        if recipient && case.prog.main().steps.iter().any(|s| matches!(s.op, Operation::Truncate(_))) {
            continue;
        }
        let mut same_class = true;
        for (k, ow) in case.owners.iter().enumerate() {
            let own = match ow {
                Owner::Public => true,
                Owner::Party(p) => *p as usize == o,
                Owner::Shared => false,
            };
            if own && case.inputs[k] != world_b[k] {
                same_class = false;
            }
        }
        if recipient && ra != rb {
            same_class = false;
        }
        if !same_class {
            continue;
        }
        let mut acc: Vec<BTreeMap<(usize, usize), Vec<u32>>> = vec![BTreeMap::new(), BTreeMap::new()];
        let mut rng = Rng::new(combine(seed, o as u64));
        let mut rel_cols: Option<Vec<(usize, usize)>> = None;
        // worlds 2.. (non-recipients only): world A with the low bit of ONE input the observer does not own flipped
        // (one world per such input, at most two: flipping several at once would cancel in sums)
        let not_own: Vec<usize> = (0..case.inputs.len())
            .filter(|k| match case.owners[*k] {
                Owner::Public => false,
                Owner::Party(p) => p as usize != o,
                Owner::Shared => true,
            })
            .collect();
        let extra_worlds: Vec<Vec<Value>> = if recipient {
            vec![]
        } else {
            not_own
                .iter()
                .take(2)
                .map(|k| {
                    let mut w = case.inputs.clone();
                    w[*k] = crate::vals::add_values(&c.input_types[*k], &w[*k], &crate::vals::const_value(&c.input_types[*k], 1));
                    w
                })
                .collect()
        };
        let mut rel_rows: Vec<Vec<Vec<u64>>> = vec![vec![]; 2 + extra_worlds.len()];
        for w in 0..2 + extra_worlds.len() {
            let mut cw = case.clone();
            if w == 1 {
                cw.inputs = world_b.to_vec();
            }
            if w >= 2 {
                cw.inputs = extra_worlds[w - 2].clone();
            }
            for _ in 0..if w >= 2 { (n / 8).max(256) } else { n } {
                let mut cfgr = cfg.clone();
                cfgr.tapes = [rng.next_u64(), rng.next_u64(), rng.next_u64()];
                let inputs = match crate::exec::party_inputs(&cw, &c, &junk, rng.next_u64()) {
                    Ok(i) => i,
                    Err(e) => {
                        res.skipped = Some(e);
                        return res;
                    }
                };
                let mut ch = Chooser::replay(vec![]);
                let r = Sim::new(&c.gv, cfgr).run(&inputs, &mut ch);
                res.runs += 1;
                if r.status != Status::Completed {
                    res.skipped = Some("run did not complete".into());
                    return res;
                }
                if w < 2 {
                    projections(&c.gv, &r, o, &mut acc[w]);
                    joint_projections(&c.gv, &r, o, &mut acc[w]);
                }
                if rel_cols.is_none() {
                    rel_cols = Some(relation_columns(&c.gv, &r, o, n.saturating_sub(64 + 256 + 8).min(1500)));
                }
                rel_rows[w].push(lowbit_row(&c.gv, &r, o, rel_cols.as_ref().unwrap()));
            }
        }
        if let Some(cols) = &rel_cols {
            for wb in 1..rel_rows.len() {
                if let Some(d) = linear_relation_leak(&c.gv, cols, &rel_rows[0], &rel_rows[wb], &mut res.tests) {
                    res.violation = Some((o, format!("observer {}: {} (worlds agree on its inputs{})", o, d, if recipient { " and output" } else { "" })));
                    return res;
                }
            }
        }
        if let Some((key, chi2, k)) = compare_histograms(&acc[0], &acc[1], &mut res.tests) {
            res.violation = Some((
                o,
                format!(
                    "observer {}: {} (element/byte {}) is distributed differently in two worlds that agree on its inputs{} (two-sample chi2 = {:.0} over {} cells, {} tapes per world)",
                    o,
                    describe_projection(&c, key),
                    key.1,
                    if recipient { " and output" } else { "" },
                    chi2,
                    k,
                    n
                ),
            ));
            return res;
        }
        // conditioned batches: the observer's own draws and the key material it receives are held fixed, everything
        // else varies. A message masked only by randomness the observer knows shows here as a constant that differs
        // between the worlds, however uniform it looks once that randomness varies as well.
        let fixed = observer_key_material(&c.gv, o);
        if std::env::var("VERIF_DEBUG").is_ok() {
            let all: Vec<usize> = (0..c.gv.nodes.len()).filter(|n| matches!(c.gv.nodes[*n].op, Operation::Random(_))).collect();
            if std::env::var("VERIF_DEBUG").map(|v| v == "2").unwrap_or(false) && o == 1 {
                for (i, ni) in c.gv.nodes.iter().enumerate() {
                    eprintln!("  n{} {} deps {:?} sends {:?} ty {}", i, ni.op, ni.deps, ni.sends, crate::dsl::type_str(&ni.ty));
                }
            }
            eprintln!("C03 conditioned: observer {} recipient {} owners {:?} outputs {:?} random nodes {:?} fixed {:?} prog {}", o, recipient, case.owners, case.outputs, all, fixed, case.prog.summary());
        }
        for batch in 0..1u64 {
            let fixed_seed = combine(combine(seed, 0xC0AD_0000 + batch), o as u64);
            let mut accc: Vec<BTreeMap<(usize, usize), Vec<u32>>> = vec![BTreeMap::new(), BTreeMap::new()];
            let m = (n / 2).max(200);
            for w in 0..2 {
                let mut cw = case.clone();
                if w == 1 {
                    cw.inputs = world_b.to_vec();
                }
                for _ in 0..m {
                    let mut cfgr = cfg.clone();
                    cfgr.tapes = [rng.next_u64(), rng.next_u64(), rng.next_u64()];
                    let inputs = match crate::exec::party_inputs(&cw, &c, &junk, rng.next_u64()) {
                        Ok(i) => i,
                        Err(e) => {
                            res.skipped = Some(e);
                            return res;
                        }
                    };
                    let or: RefCell<CondOracle> = RefCell::new(CondOracle { fixed: &fixed, fixed_seed, run_seed: rng.next_u64() });
                    let mut ch = Chooser::replay(vec![]);
                    let mut sim = Sim::new(&c.gv, cfgr);
                    sim.oracle = Some(&or);
                    let r = sim.run(&inputs, &mut ch);
                    res.runs += 1;
                    res.conditioned_runs += 1;
                    if r.status != Status::Completed {
                        res.skipped = Some("run did not complete".into());
                        return res;
                    }
                    projections(&c.gv, &r, o, &mut accc[w]);
                    joint_projections(&c.gv, &r, o, &mut accc[w]);
                }
            }
            if let Some((key, chi2, k)) = compare_histograms(&accc[0], &accc[1], &mut res.tests) {
                res.violation = Some((
                    o,
                    format!(
                        "observer {}: with its own random draws and the {} key draws it holds or receives held fixed, {} (element/byte {}) is distributed differently in two worlds that agree on its inputs{} (two-sample chi2 = {:.0} over {} cells, {} runs per world): what it receives is masked only by randomness it knows",
                        o,
                        fixed.len(),
                        describe_projection(&c, key),
                        key.1,
                        if recipient { " and output" } else { "" },
                        chi2,
                        k,
                        m
                    ),
                ));
                return res;
            }
        }
    }
    res
}

/// Workloads for the sampled mode: wider scalar types, protocols with their own masks.
pub fn gen_sampled(rng: &mut Rng, heavy: bool) -> Option<(Case, Vec<Value>)> {
    use ciphercore_base::data_types::{INT32, INT64, UINT16, UINT8};
    let st = *rng.pick(&[UINT8, UINT16, INT32, INT64]);
    let shape = if rng.chance(1, 2) { vec![] } else { vec![2] };
    let t = crate::gen::mk_type(&shape, st);
    let mut kind = rng.below(if heavy { 10 } else { 8 });
    if let Some(k) = std::env::var("VERIF_C03_KIND").ok().and_then(|s| s.parse::<u64>().ok()) {
        // debugging aid: force one workload kind
        kind = k;
    }
    if kind >= 8 {
        // heavy protocols (thorough tier): B2A of private bit strings, comparison of private integers
        use ciphercore_base::data_types::UINT8;
        let t8 = scalar_type(UINT8);
        let bt = array_type(vec![8], BIT);
        let (steps, in_types): (Vec<Step>, Vec<Type>) = if kind == 8 {
            (
                vec![
                    Step { op: Operation::Input(bt.clone()), deps: vec![], gdeps: vec![] },
                    Step { op: Operation::Input(bt.clone()), deps: vec![], gdeps: vec![] },
                    Step { op: Operation::Add, deps: vec![0, 1], gdeps: vec![] },
                    Step { op: Operation::B2A(UINT8), deps: vec![2], gdeps: vec![] },
                ],
                vec![bt.clone(), bt.clone()],
            )
        } else {
            (
                vec![
                    Step { op: Operation::Input(t8.clone()), deps: vec![], gdeps: vec![] },
                    Step { op: Operation::Input(t8.clone()), deps: vec![], gdeps: vec![] },
                    Step { op: Operation::A2B, deps: vec![0], gdeps: vec![] },
                    Step { op: Operation::A2B, deps: vec![1], gdeps: vec![] },
                    Step { op: Operation::Custom(ciphercore_base::custom_ops::CustomOperation::new(ciphercore_base::ops::comparisons::GreaterThan { signed_comparison: false })), deps: vec![2, 3], gdeps: vec![] },
                ],
                vec![t8.clone(), t8.clone()],
            )
        };
        let output = steps.len() - 1;
        let prog = Prog { graphs: vec![GraphD { steps, output, ..Default::default() }] };
        prog.build().ok()?;
        let owners: Vec<Owner> = (0..2).map(|_| *rng.pick(&[Owner::Party(0), Owner::Party(1), Owner::Party(2), Owner::Shared])).collect();
        let outputs = crate::gen::gen_outputs(rng);
        let mk = |t: &Type, rng: &mut Rng| -> Value { crate::vals::random_value(t, rng) };
        let a: Vec<Value> = in_types.iter().map(|t| crate::vals::const_value(t, 0)).collect();
        let b: Vec<Value> = in_types.iter().map(|t| mk(t, rng)).collect();
        return Some((Case { prog, owners, outputs, inline: Inline::Simple, inputs: a }, b));
    }
    if kind >= 6 {
        // secure sort of a table with private bit keys (several radix rounds) - observers are non-recipients
        let rows = 4 + rng.below(3);
        let width = 5 + rng.below(2);
        let kt = array_type(vec![rows, width], BIT);
        let tt = ciphercore_base::data_types::named_tuple_type(vec![("key".to_string(), kt.clone())]);
        let prog = Prog {
            graphs: vec![GraphD {
                steps: vec![Step { op: Operation::Input(tt.clone()), deps: vec![], gdeps: vec![] }, Step { op: Operation::Sort("key".into()), deps: vec![0], gdeps: vec![] }],
                output: 1,
                ..Default::default()
            }],
        };
        prog.build().ok()?;
        let owner = *rng.pick(&[Owner::Party(0), Owner::Party(1), Owner::Party(2)]);
        let out_party = match owner {
            Owner::Party(p) => p,
            _ => 0,
        };
        let n = (rows * width) as usize;
        let mk = |rng: &mut Rng| Value::from_vector(vec![enc(&(0..n).map(|_| rng.below(2) as u128).collect::<Vec<_>>(), BIT)]);
        let a = vec![mk(rng)];
        let b = vec![mk(rng)];
        return Some((Case { prog, owners: vec![owner], outputs: vec![out_party], inline: Inline::Simple, inputs: a }, b));
    }
    let mut steps = vec![Step { op: Operation::Input(t.clone()), deps: vec![], gdeps: vec![] }, Step { op: Operation::Input(t.clone()), deps: vec![], gdeps: vec![] }];
    let mut in_types = vec![t.clone(), t.clone()];
    match kind {
        0 => {
            if shape.is_empty() && rng.chance(1, 2) {
                // private x private Gemm / Matmul on 1x1 matrices
                let mt = array_type(vec![1, 1], st);
                steps[0] = Step { op: Operation::Input(mt.clone()), deps: vec![], gdeps: vec![] };
                steps[1] = Step { op: Operation::Input(mt.clone()), deps: vec![], gdeps: vec![] };
                in_types = vec![mt.clone(), mt];
                steps.push(Step { op: if rng.chance(2, 3) { Operation::Gemm(rng.chance(1, 2), rng.chance(1, 2)) } else { Operation::Matmul }, deps: vec![0, 1], gdeps: vec![] });
            } else {
                steps.push(Step { op: Operation::Multiply, deps: vec![0, 1], gdeps: vec![] });
            }
        }
        1 => {
            steps.push(Step { op: Operation::Multiply, deps: vec![0, 1], gdeps: vec![] });
            steps.push(Step { op: Operation::Add, deps: vec![2, 0], gdeps: vec![] });
            steps.push(Step { op: Operation::Multiply, deps: vec![3, 1], gdeps: vec![] });
        }
        2 => {
            // mixed multiply with a private bit (oblivious transfer)
            let bt = crate::gen::mk_type(&shape, BIT);
            steps[1] = Step { op: Operation::Input(bt.clone()), deps: vec![], gdeps: vec![] };
            in_types[1] = bt;
            steps.push(Step { op: Operation::MixedMultiply, deps: vec![0, 1], gdeps: vec![] });
        }
        3 => {
            if !st.is_signed() && rng.chance(1, 2) {
                return None;
            }
            // truncation of an ARRAY (its per-entry masks must be independent)
            let t2 = array_type(vec![2], st);
            steps[0] = Step { op: Operation::Input(t2.clone()), deps: vec![], gdeps: vec![] };
            steps[1] = Step { op: Operation::Input(t2.clone()), deps: vec![], gdeps: vec![] };
            in_types = vec![t2.clone(), t2];
            steps.push(Step { op: Operation::Add, deps: vec![0, 1], gdeps: vec![] });
            steps.push(Step { op: Operation::Truncate(1 << (1 + rng.below(3))), deps: vec![2], gdeps: vec![] });
        }
        4 => {
            steps.push(Step { op: Operation::Add, deps: vec![0, 1], gdeps: vec![] });
            steps.push(Step { op: Operation::A2B, deps: vec![2], gdeps: vec![] });
        }
        _ => {
            steps.push(Step { op: Operation::Subtract, deps: vec![0, 1], gdeps: vec![] });
            steps.push(Step { op: Operation::Multiply, deps: vec![2, 2], gdeps: vec![] });
        }
    }
    let output = steps.len() - 1;
    let prog = Prog { graphs: vec![GraphD { steps, output, ..Default::default() }] };
    prog.build().ok()?;
    let mut owners: Vec<Owner> = (0..2).map(|_| *rng.pick(&[Owner::Party(0), Owner::Party(1), Owner::Party(2), Owner::Shared])).collect();
    let mut outputs = crate::gen::gen_outputs(rng);
    if kind == 3 {
        // the truncation protocol opens the masked value between parties 0 and 1: make them observers that neither own
        // a differing input nor receive the (differing) output
        owners = vec![Owner::Party(2), Owner::Shared];
        outputs = vec![2];
    }
    // world A: zeros; world B: far from A but with the SAME plaintext output wherever that is easy, so that output
    // recipients are compared too (an observer that owns an input which differs between the worlds is skipped)
    let small = |t: &Type, rng: &mut Rng| -> Vec<u128> {
        let st = t.get_scalar_type();
        let lim = if st == BIT { 2 } else { 16 };
        (0..num_elems(t)).map(|_| 1 + rng.below(lim - 1) as u128).collect()
    };
    let a: Vec<Value> = in_types.iter().map(|t| crate::vals::const_value(t, 0)).collect();
    let r0 = small(&in_types[0], rng);
    let st0 = in_types[0].get_scalar_type();
    let m0 = crate::vals::st_mask(st0);
    let b: Vec<Value> = match kind {
        // products with a zero second factor stay zero
        0 | 1 | 2 => vec![enc(&r0, st0), a[1].clone()],
        // x + y with (r, -r)
        4 => vec![enc(&r0, st0), enc(&r0.iter().map(|x| x.wrapping_neg() & m0).collect::<Vec<_>>(), st0)],
        // (x - y)^2 with (r, r)
        5 => vec![enc(&r0, st0), enc(&r0, st0)],
        _ => vec![enc(&r0, st0), enc(&small(&in_types[1], rng), in_types[1].get_scalar_type())],
    };
    Some((Case { prog, owners, outputs, inline: Inline::Simple, inputs: a }, b))
}

// ---------------------------------------------------------------------------------------------
// Template attack (sampled mode, oblivious transfer): unmask two received payloads with two PRF values the
// observer computed itself, compare with a share it holds, conditioned on one of its own bits
// ---------------------------------------------------------------------------------------------

#[derive(Default, Clone)]
struct ViewVec {
    recv: Vec<u128>,
    prf: Vec<u128>,
    share: Vec<u128>,
    bits: Vec<u8>,
}

fn view_vec(case: &Case, gv: &GraphView, run: &crate::trisim::RunResult, o: usize, inputs: &[Vec<PV>], st: ciphercore_base::data_types::ScalarType) -> ViewVec {
    let mut v = ViewVec::default();
    let first = |pv: &PV, t: &Type| -> Option<u128> {
        if !is_leaf_type(t) {
            return None;
        }
        match pv {
            PV::Leaf(val) => crate::vals::dec(val, t).first().cloned(),
            _ => None,
        }
    };
    for m in &run.msgs {
        if m.to == o {
            let t = &gv.nodes[m.node].ty;
            if is_leaf_type(t) && t.get_scalar_type() == st {
                if let Some(x) = first(&m.payload, t) {
                    v.recv.push(x);
                }
            } else if is_leaf_type(t) && t.get_scalar_type() == BIT {
                if let Some(x) = first(&m.payload, t) {
                    v.bits.push(x as u8);
                }
            }
        }
    }
    for (i, ni) in gv.nodes.iter().enumerate() {
        if matches!(ni.op, Operation::PRF(_, _)) && is_leaf_type(&ni.ty) && ni.ty.get_scalar_type() == st {
            if let Some(Some(pv)) = run.values[o].get(i).map(|x| x.as_ref()) {
                if let Some(x) = first(pv, &ni.ty) {
                    v.prf.push(x);
                }
            }
        }
    }
    let its = case.prog.input_types();
    for (k, ow) in case.owners.iter().enumerate() {
        if *ow == Owner::Shared {
            for s in [o, (o + 1) % 3] {
                let c = inputs[k][o].child(s);
                if let Some(x) = first(&c, &its[k]) {
                    if its[k].get_scalar_type() == st {
                        v.share.push(x);
                    } else if its[k].get_scalar_type() == BIT {
                        v.bits.push(x as u8);
                    }
                }
            }
        }
    }
    v
}

/// Returns a description of a distinguishing template, if one exists.
fn template_attack(a: &[ViewVec], b: &[ViewVec], st: ciphercore_base::data_types::ScalarType, tests: &mut u64) -> Option<String> {
    if a.is_empty() || b.is_empty() {
        return None;
    }
    let mask = crate::vals::st_mask(st);
    let (nr, np, ns, nb) = (a[0].recv.len().min(6), a[0].prf.len().min(14), a[0].share.len().min(4), a[0].bits.len().min(6));
    if a.iter().chain(b.iter()).any(|v| v.recv.len() < nr || v.prf.len() < np || v.share.len() < ns || v.bits.len() < nb) {
        return None;
    }
    let n = a.len().min(b.len());
    for ra in 0..nr {
        for rb in 0..nr {
            if ra == rb {
                continue;
            }
            for pi in 0..np {
                for pj in 0..np {
                    if pi == pj {
                        continue;
                    }
                    for sk in 0..ns {
                        for sign in 0..2 {
                            // z = [ (recv_a - prf_i) - (recv_b - prf_j) == +-share_k ]
                            let z = |v: &ViewVec| -> bool {
                                let d = v.recv[ra].wrapping_sub(v.prf[pi]).wrapping_sub(v.recv[rb]).wrapping_add(v.prf[pj]) & mask;
                                let s = if sign == 0 { v.share[sk] } else { v.share[sk].wrapping_neg() & mask };
                                d == s && s != 0
                            };
                            // unconditioned and conditioned on each own bit
                            let mut cnt = vec![[0u32; 2]; 2 * (1 + 2 * nb)]; // [world][cond] -> (hits, total)
                            for (w, vs) in [a, b].iter().enumerate() {
                                for v in vs.iter().take(n) {
                                    let hit = z(v) as u32;
                                    let base = w * (1 + 2 * nb);
                                    cnt[base][0] += hit;
                                    cnt[base][1] += 1;
                                    for bi in 0..nb {
                                        let c = base + 1 + 2 * bi + v.bits[bi] as usize;
                                        cnt[c][0] += hit;
                                        cnt[c][1] += 1;
                                    }
                                }
                            }
                            for c in 0..(1 + 2 * nb) {
                                let (ha, ta) = (cnt[c][0] as f64, cnt[c][1] as f64);
                                let (hb, tb) = (cnt[(1 + 2 * nb) + c][0] as f64, cnt[(1 + 2 * nb) + c][1] as f64);
                                if ta < 200.0 || tb < 200.0 {
                                    continue;
                                }
                                *tests += 1;
                                // Hoeffding: each frequency is within sqrt(45 / (2 t)) of its mean except with probability 2 e^-45
                                let eps = (45.0 / (2.0 * ta)).sqrt() + (45.0 / (2.0 * tb)).sqrt();
                                if (ha / ta - hb / tb).abs() > eps {
                                    return Some(format!(
                                        "(payload#{} - own PRF#{}) - (payload#{} - own PRF#{}) == {}held share#{}{} holds with frequency {:.3} in one world and {:.3} in the other",
                                        ra,
                                        pi,
                                        rb,
                                        pj,
                                        if sign == 0 { "" } else { "-" },
                                        sk,
                                        if c == 0 { String::new() } else { format!(" given own bit#{} = {}", (c - 1) / 2, (c - 1) % 2) },
                                        ha / ta,
                                        hb / tb
                                    ));
                                }
                            }
                        }
                    }
                }
            }
        }
    }
    None
}

/// Oblivious-transfer workload: MixedMultiply of a shared integer by a shared bit; the two worlds differ in the bit only.
pub fn ot_template_check(rng: &mut Rng, n: usize) -> SampledResult {
    use ciphercore_base::data_types::UINT8;
    let mut res = SampledResult { violation: None, runs: 0, tests: 0, skipped: None, conditioned_runs: 0 };
    let st = UINT8;
    let prog = Prog {
        graphs: vec![GraphD {
            steps: vec![
                Step { op: Operation::Input(scalar_type(st)), deps: vec![], gdeps: vec![] },
                Step { op: Operation::Input(scalar_type(BIT)), deps: vec![], gdeps: vec![] },
                Step { op: Operation::MixedMultiply, deps: vec![0, 1], gdeps: vec![] },
            ],
            output: 2,
            ..Default::default()
        }],
    };
    let x = 1 + rng.below(200) as u128;
    let case = Case { prog, owners: vec![Owner::Shared, Owner::Shared], outputs: vec![], inline: Inline::Simple, inputs: vec![enc(&[x], st), enc(&[0], BIT)] };
    let c = match compile_case(&case) {
        CompileOutcome::Ok(c) => c,
        _ => {
            res.skipped = Some("not compiled".into());
            return res;
        }
    };
    let mut cfg = RunCfg::independent([0, 0, 0]);
    cfg.keep_values = true;
    let junk = JunkPlan::uniform(JunkKind::Zeros, 0);
    let mut views: Vec<Vec<Vec<ViewVec>>> = vec![vec![vec![]; 2]; 3];
    for w in 0..2 {
        let mut cw = case.clone();
        cw.inputs[1] = enc(&[w as u128], BIT);
        for _ in 0..n {
            let mut cfgr = cfg.clone();
            cfgr.tapes = [rng.next_u64(), rng.next_u64(), rng.next_u64()];
            let inputs = match crate::exec::party_inputs(&cw, &c, &junk, rng.next_u64()) {
                Ok(i) => i,
                Err(e) => {
                    res.skipped = Some(e);
                    return res;
                }
            };
            let mut ch = Chooser::replay(vec![]);
            let r = Sim::new(&c.gv, cfgr).run(&inputs, &mut ch);
            res.runs += 1;
            if r.status != Status::Completed {
                res.skipped = Some("run did not complete".into());
                return res;
            }
            for o in 0..3 {
                views[o][w].push(view_vec(&cw, &c.gv, &r, o, &inputs, st));
            }
        }
    }
    for o in 0..3 {
        if let Some(d) = template_attack(&views[o][0], &views[o][1], st, &mut res.tests) {
            res.violation = Some((o, format!("observer {} can tell two values of another party's private bit apart (oblivious transfer): {} ({} tapes per world)", o, d, n)));
            return res;
        }
    }
    res
}

// ---------------------------------------------------------------------------------------------
// Driver
// ---------------------------------------------------------------------------------------------

pub struct C03Out {
    pub violation: Option<C03Replay>,
    pub runs: u64,
    pub mode: &'static str,
    pub live_bits: Vec<usize>,
    pub classes: usize,
    pub worlds: usize,
    pub tests: u64,
    pub skipped: Option<String>,
    pub sample: Option<serde_json::Value>,
    pub key: u64,
}

pub fn run_c03(args: &Args) -> i32 {
    let t0 = std::time::Instant::now();
    let (n_exact, n_sampled, max_bits, max_runs, samples) = match args.tier {
        Tier::Quick => (args.cases.unwrap_or(48), 12, 13usize, 1u64 << 17, 4000usize),
        Tier::Thorough => (args.cases.unwrap_or(400), 60, 15usize, 1u64 << 19, 20000usize),
    };
    let n_ot = 1usize;
    let n = n_exact + n_sampled + n_ot;
    let results = run_cases(
        n,
        args.threads,
        |r: &C03Out| r.violation.is_some(),
        |i| {
            let mut rng = Rng::derive(args.seed, "C03", i as u64);
            if i < n_exact {
                let case = gen_micro(&mut rng);
                let r = exact_check(&case, max_bits, max_runs);
                let key = crate::rng::hash_str(&format!("{}|{:?}|{:?}", case.prog.summary(), case.owners, case.outputs));
                C03Out {
                    violation: r.violation.map(|(o, a, b, detail)| C03Replay {
                        property: "C03".into(),
                        engine: "trisim+views".into(),
                        mode: "exact".into(),
                        seed: args.seed,
                        case_index: i as u64,
                        program_summary: case.prog.summary(),
                        case: case.clone(),
                        observer: o,
                        world_a: a,
                        world_b: b,
                        violation: Violation { class: "view-depends-on-other-inputs".into(), detail },
                        samples: 0,
                    }),
                    runs: r.runs,
                    mode: "exact",
                    live_bits: r.live_bits.clone(),
                    classes: r.classes,
                    worlds: r.worlds,
                    tests: 0,
                    skipped: r.skipped.clone(),
                    sample: Some(serde_json::json!({"mode": "exact", "program": case.prog.summary(), "owners": format!("{:?}", case.owners), "output_parties": case.outputs, "input_assignments": r.worlds, "live_tape_bits_per_observer": r.live_bits, "classes": r.classes, "runs": r.runs, "skipped": r.skipped})),
                    key,
                }
            } else if i >= n_exact + n_sampled {
                let r = ot_template_check(&mut rng, samples);
                C03Out {
                    violation: r.violation.map(|(o, detail)| C03Replay {
                        property: "C03".into(),
                        engine: "trisim+views".into(),
                        mode: "ot-template".into(),
                        seed: args.seed,
                        case_index: i as u64,
                        program_summary: "MixedMultiply(shared u8, shared bit), output kept shared".into(),
                        case: Case { prog: Prog::default(), owners: vec![], outputs: vec![], inline: Inline::Simple, inputs: vec![] },
                        observer: o,
                        world_a: vec![],
                        world_b: vec![],
                        violation: Violation { class: "view-depends-on-other-inputs".into(), detail },
                        samples,
                    }),
                    runs: r.runs,
                    mode: "sampled",
                    live_bits: vec![],
                    classes: 0,
                    worlds: 2,
                    tests: r.tests,
                    skipped: r.skipped.clone(),
                    sample: Some(serde_json::json!({"mode": "ot-template", "program": "MixedMultiply(shared u8, shared bit)", "tapes_per_world": samples, "template_tests": r.tests, "runs": r.runs})),
                    key: 0x07,
                }
            } else {
                match gen_sampled(&mut rng, args.tier == Tier::Thorough) {
                    None => C03Out { violation: None, runs: 0, mode: "sampled", live_bits: vec![], classes: 0, worlds: 0, tests: 0, skipped: Some("generator".into()), sample: None, key: 0 },
                    Some((case, wb)) => {
                        let sseed = rng.next_u64();
                        let heavy_graph = case.prog.main().steps.iter().any(|s| matches!(s.op, Operation::B2A(_) | Operation::Custom(_)));
                        let samples = if heavy_graph { samples.min(1500) } else { samples };
                        let r = sampled_check(&case, &wb, samples, sseed);
                        let key = crate::rng::hash_str(&format!("{}|{:?}|{:?}", case.prog.summary(), case.owners, case.outputs));
                        C03Out {
                            violation: r.violation.map(|(o, detail)| C03Replay {
                                property: "C03".into(),
                                engine: "trisim+views".into(),
                                mode: "sampled".into(),
                                seed: sseed,
                                case_index: i as u64,
                                program_summary: case.prog.summary(),
                                case: case.clone(),
                                observer: o,
                                world_a: case.inputs.clone(),
                                world_b: wb.clone(),
                                violation: Violation { class: "view-depends-on-other-inputs".into(), detail },
                                samples,
                            }),
                            runs: r.runs,
                            mode: "sampled",
                            live_bits: vec![],
                            classes: 0,
                            worlds: 2,
                            tests: r.tests,
                            skipped: r.skipped.clone(),
                            sample: Some(serde_json::json!({"mode": "sampled", "program": case.prog.summary(), "owners": format!("{:?}", case.owners), "output_parties": case.outputs, "tapes_per_world": samples, "chi2_tests": r.tests, "runs": r.runs, "skipped": r.skipped})),
                            key,
                        }
                    }
                }
            }
        },
    );
    let mut runs = 0u64;
    let mut exact_done = 0u64;
    let mut exact_skipped = 0u64;
    let mut sampled_done = 0u64;
    let mut tests = 0u64;
    let mut classes = 0u64;
    let mut max_live = 0usize;
    let mut samples_out = vec![];
    let mut distinct = BTreeSet::new();
    let mut skips: BTreeMap<String, u64> = BTreeMap::new();
    let mut violation = None;
    for (_, r) in &results {
        runs += r.runs;
        tests += r.tests;
        classes += r.classes as u64;
        max_live = max_live.max(r.live_bits.iter().cloned().max().unwrap_or(0));
        if let Some(s) = &r.skipped {
            *skips.entry(s.split(|c: char| c.is_ascii_digit()).next().unwrap_or("").trim().to_string()).or_insert(0) += 1;
            if r.mode == "exact" && r.runs <= 1 {
                exact_skipped += 1;
            }
        }
        if r.mode == "exact" && r.runs > 1 {
            exact_done += 1;
            distinct.insert(r.key);
        }
        if r.mode == "sampled" && r.runs > 0 {
            sampled_done += 1;
            distinct.insert(r.key);
        }
        if let Some(s) = &r.sample {
            if samples_out.len() < 4 && r.runs > 1 {
                samples_out.push(s.clone());
            }
        }
        if violation.is_none() {
            violation = r.violation.clone();
        }
    }
    let mut code = 0;
    let mut nviol = 0;
    if let Some(v) = violation {
        nviol = 1;
        match write_replay(&args.replay_dir, &format!("C03-{}-{}", args.seed, v.case_index), &serde_json::to_value(&v).unwrap()) {
            Ok(path) => {
                println!("VIOLATION property=C03 replay={}", path);
                println!("  mode={} detail={}", v.mode, v.violation.detail);
                println!("  program={} owners={:?} outputs={:?}", v.program_summary, v.case.owners, v.case.outputs);
            }
            Err(e) => {
                eprintln!("cannot write replay: {}", e);
                return 2;
            }
        }
        code = 1;
    }
    let wall = t0.elapsed().as_secs_f64();
    if samples_out.is_empty() {
        samples_out.push(serde_json::json!({"note": "no case completed"}));
    }
    let ev = EvidenceOut {
        args,
        level: "exploration",
        rule: "exact mode: seeded bit-typed micro programs (2-3 bit inputs, 1-3 operations out of Add/Multiply/Dot, tuple outputs) x owners (party/public/shared) x output sets, compiled by the real pipeline; the PRF is idealised inside the simulator (symbolic keys, one tape slot per (key, counter)); for each observer the live tape bits are found by a sound structural taint analysis and EVERY tape is enumerated for EVERY input assignment; view multisets are compared exactly within each class of assignments that agree on the observer's own inputs and output. sampled mode: 8..64-bit programs (multiply chains, oblivious transfer via mixed multiply, truncation, A2B) with the real AES PRF, thousands of random tapes per world, two worlds per observer class, conservative two-sample chi-square on byte projections of every value the observer holds. distinct_nontrivial = distinct (program, owners, outputs) configurations fully checked".into(),
        evaluations: runs.max(1),
        distinct_nontrivial: distinct.len() as u64,
        samples: samples_out,
        extra: serde_json::json!({
            "simulated_runs": runs,
            "exact_programs_checked": exact_done,
            "exact_programs_skipped": exact_skipped,
            "exact_observer_classes_compared": classes,
            "exact_max_live_tape_bits": max_live,
            "exhaustive_over_tapes_and_inputs_for_checked_exact_programs": true,
            "sampled_programs_checked": sampled_done,
            "sampled_chi2_tests": tests,
            "skip_reasons": skips,
            "runs_per_hour": if wall > 0.0 { (runs as f64 / wall * 3600.0) as u64 } else { 0 },
            "faults_fired": {"tapes:all-enumerated(exact)": exact_done, "tapes:independent(sampled)": sampled_done, "junk:Zeros": runs},
            "components": {"real": ["compiler pipeline", "SimpleEvaluator for every non-random node", "AES PRF (sampled mode)"], "stub": ["party runtime, transport, scheduler (lockstep)", "idealised PRF oracle with symbolic keys (exact mode only)", "taint analysis", "statistics"]}
        }),
        assumptions: vec![
            "exact mode idealises the PRF as the property demands; keys are symbolic identities, so key bits themselves are not part of the compared view".into(),
            "the observer supplies zeros for inputs and share slots it does not hold".into(),
            "sampled mode detects gross leaks (dropped mask, extra share, output to a non-recipient), not negligible statistical ones; Join is excluded".into(),
        ],
        wall_s: wall,
        violations: nviol,
        exhaustive: false,
    };
    if let Err(e) = write_evidence(ev) {
        eprintln!("cannot write evidence: {}", e);
        return 2;
    }
    println!("[C03] tier={} seed={} exact_programs={} (skipped {}) max_live_bits={} sampled_programs={} chi2_tests={} runs={} wall={:.1}s", args.tier.name(), args.seed, exact_done, exact_skipped, max_live, sampled_done, tests, runs, wall);
    code
}

pub fn replay_cmd(path: &str) -> i32 {
    let s = match std::fs::read_to_string(path) {
        Ok(s) => s,
        Err(e) => {
            eprintln!("cannot read {}: {}", path, e);
            return 2;
        }
    };
    let rp: C03Replay = match serde_json::from_str(&s) {
        Ok(r) => r,
        Err(e) => {
            eprintln!("cannot parse replay: {}", e);
            return 2;
        }
    };
    let v = if rp.mode == "ot-template" {
        let mut rng = Rng::derive(rp.seed, "C03", rp.case_index);
        ot_template_check(&mut rng, rp.samples.max(1000)).violation.map(|(_, d)| d)
    } else if rp.mode == "exact" {
        exact_check(&rp.case, 20, 1 << 24).violation.map(|(_, _, _, d)| d)
    } else {
        sampled_check(&rp.case, &rp.world_b, rp.samples.max(1000), rp.seed).violation.map(|(_, d)| d)
    };
    match v {
        Some(d) => {
            println!("VIOLATION property=C03 replay={}", path);
            println!("  detail={}", d);
            1
        }
        None => {
            println!("replay {}: no violation reproduced", path);
            0
        }
    }
}

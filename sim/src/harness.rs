//! Shared driver: argument parsing, deterministic parallel case loop, statistics, evidence and
//! replay files.

use crate::trisim::FaultCounts;
use serde::{Deserialize, Serialize};
use std::collections::{BTreeMap, BTreeSet};
use std::sync::atomic::{AtomicUsize, Ordering};
use std::sync::Mutex;

pub const DEFAULT_SEED: u64 = 20260923;

pub fn verif_dir() -> String {
    std::env::var("VERIF_DIR").ok().filter(|s| !s.is_empty()).unwrap_or_else(|| "/verif".to_string())
}

#[derive(Clone, Debug, PartialEq)]
pub enum Tier {
    Quick,
    Thorough,
}

impl Tier {
    pub fn name(&self) -> &'static str {
        match self {
            Tier::Quick => "quick",
            Tier::Thorough => "thorough",
        }
    }
}

#[derive(Clone, Debug)]
pub struct Args {
    pub prop: String,
    pub tier: Tier,
    pub seed: u64,
    pub threads: usize,
    pub cases: Option<usize>,
    pub replay: Option<String>,
    pub evidence: Option<String>,
    pub replay_dir: String,
    pub extra: Vec<String>,
}

pub fn parse_args() -> Result<Args, String> {
    let mut it = std::env::args().skip(1);
    let prop = it.next().ok_or("usage: ccsim <property|selftest> [--tier quick|thorough] [--seed N] [--replay file]")?;
    let mut a = Args {
        prop,
        tier: match std::env::var("VERIF_TIER").ok().as_deref() {
            Some("thorough") => Tier::Thorough,
            _ => Tier::Quick,
        },
        seed: std::env::var("VERIF_SEED").ok().and_then(|s| s.trim().parse::<u64>().ok()).unwrap_or(DEFAULT_SEED),
        threads: std::thread::available_parallelism().map(|n| n.get()).unwrap_or(4).min(16),
        cases: None,
        replay: None,
        evidence: None,
        replay_dir: format!("{}/replays", verif_dir()),
        extra: vec![],
    };
    while let Some(x) = it.next() {
        match x.as_str() {
            "--tier" => {
                a.tier = match it.next().as_deref() {
                    Some("quick") => Tier::Quick,
                    Some("thorough") => Tier::Thorough,
                    o => return Err(format!("bad tier {:?}", o)),
                }
            }
            "quick" => a.tier = Tier::Quick,
            "thorough" => a.tier = Tier::Thorough,
            "--seed" => a.seed = it.next().and_then(|s| s.parse().ok()).ok_or("bad --seed")?,
            "--threads" | "-j" => a.threads = it.next().and_then(|s| s.parse().ok()).ok_or("bad --threads")?,
            "--cases" => a.cases = Some(it.next().and_then(|s| s.parse().ok()).ok_or("bad --cases")?),
            "--replay" => a.replay = Some(it.next().ok_or("--replay needs a path")?),
            "--evidence" => a.evidence = Some(it.next().ok_or("--evidence needs a path")?),
            "--replay-dir" => a.replay_dir = it.next().ok_or("--replay-dir needs a path")?,
            other => a.extra.push(other.to_string()),
        }
    }
    Ok(a)
}

/// Deterministic parallel map over case indices: workers take indices in increasing order from an
/// atomic counter; results are merged by index. If `stop_at_first` and a case reports `is_bad`,
/// no new indices are started, already started (smaller) ones finish; the verdict is the smallest
/// bad index, which does not depend on the number of workers.
pub fn run_cases<R: Send>(n: usize, threads: usize, is_bad: impl Fn(&R) -> bool + Sync, f: impl Fn(usize) -> R + Sync) -> Vec<(usize, R)> {
    let next = AtomicUsize::new(0);
    let stop = AtomicUsize::new(usize::MAX);
    let out: Mutex<Vec<(usize, R)>> = Mutex::new(Vec::new());
    std::thread::scope(|s| {
        for _ in 0..threads.max(1) {
            s.spawn(|| {
                crate::trisim::install_quiet_panic_hook();
                loop {
                    let i = next.fetch_add(1, Ordering::SeqCst);
                    if i >= n || i > stop.load(Ordering::SeqCst) {
                        break;
                    }
                    let r = match std::panic::catch_unwind(std::panic::AssertUnwindSafe(|| f(i))) {
                        Ok(r) => r,
                        Err(_) => {
                            eprintln!("HARNESS-ERROR: panic in case {}: {}", i, crate::trisim::take_last_panic());
                            std::process::exit(2);
                        }
                    };
                    if is_bad(&r) {
                        stop.fetch_min(i, Ordering::SeqCst);
                    }
                    out.lock().unwrap().push((i, r));
                }
            });
        }
    });
    let mut v = out.into_inner().unwrap();
    v.sort_by_key(|(i, _)| *i);
    // drop results past the first bad index so that everything reported is schedule independent
    let first_bad = stop.load(Ordering::SeqCst);
    v.retain(|(i, _)| *i <= first_bad);
    v
}

#[derive(Clone, Debug, Default, Serialize, Deserialize)]
pub struct Stats {
    pub cases: u64,
    pub skipped_rejected: u64,
    pub skipped_reference_error: u64,
    pub compile_panics: u64,
    pub runs: u64,
    pub runs_fault_free: u64,
    pub runs_faulty: u64,
    pub events: u64,
    pub sim_time: u64,
    pub aborted: u64,
    pub validated_against_impl: u64,
    pub faults: FaultCounts,
    pub fired: BTreeMap<String, u64>,
    pub probes: BTreeMap<String, u64>,
    pub interleavings: BTreeSet<u64>,
    pub graph_shapes: BTreeSet<u64>,
    pub nontrivial: BTreeSet<u64>,
    pub compile_ms: u64,
    pub nodes_total: u64,
}

impl Stats {
    pub fn merge(&mut self, o: &Stats) {
        self.cases += o.cases;
        self.skipped_rejected += o.skipped_rejected;
        self.skipped_reference_error += o.skipped_reference_error;
        self.compile_panics += o.compile_panics;
        self.runs += o.runs;
        self.runs_fault_free += o.runs_fault_free;
        self.runs_faulty += o.runs_faulty;
        self.events += o.events;
        self.sim_time += o.sim_time;
        self.aborted += o.aborted;
        self.validated_against_impl += o.validated_against_impl;
        self.faults.add(&o.faults);
        for (k, v) in &o.fired {
            *self.fired.entry(k.clone()).or_insert(0) += v;
        }
        for (k, v) in &o.probes {
            *self.probes.entry(k.clone()).or_insert(0) += v;
        }
        self.interleavings.extend(o.interleavings.iter());
        self.graph_shapes.extend(o.graph_shapes.iter());
        self.nontrivial.extend(o.nontrivial.iter());
        self.compile_ms += o.compile_ms;
        self.nodes_total += o.nodes_total;
    }
    pub fn fire(&mut self, k: &str, n: u64) {
        if n > 0 {
            *self.fired.entry(k.to_string()).or_insert(0) += n;
        }
    }
    pub fn probe(&mut self, k: &str, n: u64) {
        *self.probes.entry(k.to_string()).or_insert(0) += n;
    }
}

pub struct EvidenceOut<'a> {
    pub args: &'a Args,
    pub level: &'a str,
    pub rule: String,
    pub evaluations: u64,
    pub distinct_nontrivial: u64,
    pub samples: Vec<serde_json::Value>,
    pub extra: serde_json::Value,
    pub assumptions: Vec<String>,
    pub wall_s: f64,
    pub violations: u64,
    pub exhaustive: bool,
}

pub fn write_evidence(e: EvidenceOut) -> Result<(), String> {
    let path = e.args.evidence.clone().unwrap_or_else(|| format!("{}/evidence/{}.json", verif_dir(), e.args.prop));
    let mut coverage = serde_json::json!({
        "evaluations": e.evaluations,
        "distinct_nontrivial": e.distinct_nontrivial,
        "rule": e.rule,
        "samples": e.samples,
        "exhaustive": e.exhaustive,
    });
    if let (Some(c), Some(x)) = (coverage.as_object_mut(), e.extra.as_object()) {
        for (k, v) in x {
            c.insert(k.clone(), v.clone());
        }
    }
    let doc = serde_json::json!({
        "property_id": e.args.prop,
        "tier": e.args.tier.name(),
        "seed": e.args.seed,
        "level": e.level,
        "coverage": coverage,
        "assumptions": e.assumptions,
        "wall_s": (e.wall_s * 1000.0).round() / 1000.0,
        "violations": e.violations,
    });
    if let Some(dir) = std::path::Path::new(&path).parent() {
        std::fs::create_dir_all(dir).map_err(|x| x.to_string())?;
    }
    let tmp = format!("{}.tmp", path);
    std::fs::write(&tmp, serde_json::to_string_pretty(&doc).map_err(|x| x.to_string())?).map_err(|x| x.to_string())?;
    std::fs::rename(&tmp, &path).map_err(|x| x.to_string())?;
    Ok(())
}

pub fn stats_json(s: &Stats, wall_s: f64) -> serde_json::Value {
    let per_hour = |x: u64| if wall_s > 0.0 { (x as f64 / wall_s * 3600.0).round() as u64 } else { 0 };
    let mut zero_probes: Vec<String> = s.probes.iter().filter(|(_, v)| **v == 0).map(|(k, _)| k.clone()).collect();
    zero_probes.sort();
    serde_json::json!({
        "cases_generated": s.cases,
        "cases_skipped_compiler_rejected": s.skipped_rejected,
        "cases_skipped_reference_runtime_error": s.skipped_reference_error,
        "compile_panics_skipped": s.compile_panics,
        "simulated_runs": s.runs,
        "simulated_runs_fault_free_config": s.runs_fault_free,
        "simulated_runs_fault_config": s.runs_faulty,
        "runs_per_hour": per_hour(s.runs),
        "seeds_per_hour": per_hour(s.cases),
        "simulated_events": s.events,
        "simulated_time_steps": s.sim_time,
        "protocol_aborts_counted": s.aborted,
        "traces_validated_against_impl": s.validated_against_impl,
        "faults_fired": s.fired,
        "fault_counters": s.faults,
        "probes": s.probes,
        "probes_at_zero": zero_probes,
        "distinct_interleavings": s.interleavings.len(),
        "distinct_compiled_graph_shapes": s.graph_shapes.len(),
        "compiled_nodes_total": s.nodes_total,
        "compile_ms_total": s.compile_ms,
        "components": {
            "real": ["Graph/Context API", "type inference", "instantiation", "inlining", "MPC compiler", "PRF renumbering", "optimizer", "SimpleEvaluator::evaluate_node (AES PRF, PRNG)", "TypedValue::secret_share"],
            "stub": ["party runtime (per-party stores, Send handling, junk provisioning)", "transport", "scheduler", "logical clock"]
        }
    })
}

pub fn write_replay(dir: &str, name: &str, doc: &serde_json::Value) -> Result<String, String> {
    std::fs::create_dir_all(dir).map_err(|x| x.to_string())?;
    let path = format!("{}/{}.json", dir, name);
    std::fs::write(&path, serde_json::to_string_pretty(doc).map_err(|x| x.to_string())?).map_err(|x| x.to_string())?;
    Ok(path)
}

#[derive(Clone, Debug, Serialize, Deserialize)]
pub struct KnownFindings {
    #[serde(default)]
    pub findings: Vec<KnownFinding>,
    #[serde(default)]
    pub fixed: Vec<String>,
    #[serde(default, rename = "_comment")]
    pub comment: String,
}

#[derive(Clone, Debug, Serialize, Deserialize)]
pub struct KnownFinding {
    pub properties: Vec<String>,
    pub id: String,
    pub what: String,
    /// human-readable statement of the signature that the code-level predicate checks
    #[serde(default)]
    pub signature: String,
    /// a replay file (engine specific) that demonstrates the finding
    #[serde(default)]
    pub witness: serde_json::Value,
}

pub fn load_known_findings() -> KnownFindings {
    let p = format!("{}/known_findings.json", verif_dir());
    match std::fs::read_to_string(&p) {
        Ok(s) => serde_json::from_str(&s).unwrap_or_else(|e| {
            eprintln!("HARNESS-ERROR: known_findings.json does not parse: {}", e);
            std::process::exit(2)
        }),
        Err(_) => KnownFindings { findings: vec![], fixed: vec![], comment: String::new() },
    }
}

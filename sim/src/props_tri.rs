//! C01 and C02: general programs through the full compiler pipeline, then simulated.

use crate::exec::{check_global_output, compile_case, global_inputs, is_abort, reference, Case, CompileOutcome, Compiled, JunkKind, JunkPlan};
use crate::gen::{gen_case, GenCfg};
use crate::harness::{run_cases, stats_json, write_evidence, write_replay, Args, EvidenceOut, Stats, Tier};
use crate::rng::{Chooser, Rng};
use crate::tri::*;
use crate::trisim::{Delivery, Policy, RunCfg};
use ciphercore_base::data_values::Value;

pub type CaseGen = dyn Fn(&mut Rng) -> Option<Case> + Sync;

pub fn general_case(rng: &mut Rng) -> Option<Case> {
    // one case in four is a small program aimed at a single protocol (conversions, OT, gemm, postponed resharing)
    if rng.chance(1, 4) {
        if let Some(c) = crate::gen::protocol_case(rng) {
            return Some(c);
        }
    }
    // a few compositions of table operations (join / sort / permutation) with arithmetic on their columns
    if rng.chance(1, 16) {
        if let Some(c) = crate::gen_tables::composed_table_case(rng) {
            return Some(c);
        }
    }
    // one swarm case in six takes tuples / vectors / named tuples as program inputs (decided without consuming from
    // the case stream, so the other cases of a seed stay what they were)
    let composite = rng.clone().next_u64() % 6 == 0;
    let mut cfg = GenCfg::swarm(rng);
    cfg.composite_inputs = composite;
    gen_case(&cfg, rng)
}

fn prepare(stats: &mut Stats, case: &Case) -> Option<(Compiled, Value)> {
    let c = match compile_case(case) {
        CompileOutcome::Ok(c) => c,
        CompileOutcome::Rejected(e) => {
            if std::env::var("VERIF_DEBUG").is_ok() {
                eprintln!("compiler rejected: {} :: {}", e, case.prog.summary());
            }
            stats.skipped_rejected += 1;
            return None;
        }
        CompileOutcome::Panic(e) => {
            if std::env::var("VERIF_DEBUG").is_ok() {
                eprintln!("compiler panic: {} :: {}", e, case.prog.summary());
            }
            stats.compile_panics += 1;
            return None;
        }
    };
    stats.compile_ms += c.compile_ms as u64;
    let r = match reference(&c, &case.inputs) {
        Ok(r) => r,
        Err(e) => {
            if std::env::var("VERIF_DEBUG").is_ok() {
                eprintln!("reference error: {} :: {}", e, case.prog.summary());
            }
            stats.skipped_reference_error += 1;
            return None;
        }
    };
    graph_probes(stats, &c);
    Some((c, r))
}

/// §2.7: lockstep + one shared tape + true values + immediate delivery must coincide with the
/// repository's own `evaluate_graph` under the same seed, at every party.
pub fn self_validate(stats: &mut Stats, case: &Case, c: &Compiled, seed: u64, dealer_seed: u64) -> Result<(), String> {
    let ins = global_inputs(case, c, dealer_seed)?;
    let g = global_run(c, ins, seed);
    let junk = JunkPlan::uniform(JunkKind::True, 0);
    let cfg = RunCfg::control(seed);
    let inputs = crate::exec::party_inputs(case, c, &junk, dealer_seed)?;
    let mut ch = Chooser::replay(vec![]);
    let r = crate::trisim::Sim::new(&c.gv, cfg).run(&inputs, &mut ch);
    let sh_t = crate::exec::shared_type(&c.out_type);
    match g {
        Ok(gv) => {
            for p in 0..3 {
                match r.out[p].to_value() {
                    Some(v) if v == gv || crate::vals::typed_eq(if case.outputs.is_empty() { &sh_t } else { &c.out_type }, &v, &gv) => {}
                    Some(_) => return Err(format!("self-validation: party {} output differs from evaluate_graph under the shared tape", p)),
                    None => return Err(format!("self-validation: party {} output undefined: {:?}", p, r.out[p].first_poison())),
                }
            }
            stats.validated_against_impl += 1;
            Ok(())
        }
        Err(e) => {
            // the global run fails (e.g. protocol abort): the simulated run must fail too
            if r.out.iter().all(|o| o.has_poison()) || r.status != crate::trisim::Status::Completed {
                stats.validated_against_impl += 1;
                Ok(())
            } else {
                Err(format!("self-validation: evaluate_graph fails ({}) but the simulated control run succeeds", e))
            }
        }
    }
}

pub struct TriPlan {
    pub prop: &'static str,
    pub n_cases: usize,
    pub level: &'static str,
}

fn finish(args: &Args, prop: &str, level: &str, rule: &str, results: Vec<(usize, TriCaseOut)>, wall: f64, assumptions: Vec<String>, n_cases: usize) -> i32 {
    let mut stats = Stats::default();
    let mut samples = vec![];
    let mut violation: Option<TriReplay> = None;
    for (_, r) in &results {
        stats.merge(&r.stats);
        if samples.len() < 3 {
            if let Some(s) = &r.sample {
                samples.push(s.clone());
            }
        }
        if violation.is_none() {
            if let Some(v) = &r.violation {
                violation = Some(v.clone());
            }
        }
    }
    report_known_findings(prop);
    let mut code = 0;
    let mut nviol = 0;
    if let Some(v) = violation {
        nviol = 1;
        eprintln!("[{}] violation at case {}: {} — {}; minimising…", prop, v.case_index, v.violation.class, v.violation.detail);
        let m = minimise(v, 300);
        let name = format!("{}-{}-{}", prop, args.seed, m.case_index);
        match write_replay(&args.replay_dir, &name, &serde_json::to_value(&m).unwrap()) {
            Ok(path) => {
                println!("VIOLATION property={} replay={}", prop, path);
                println!("  class={} detail={}", m.violation.class, m.violation.detail);
                println!("  program={}", m.program_summary);
            }
            Err(e) => {
                eprintln!("cannot write replay: {}", e);
                return 2;
            }
        }
        code = 1;
    }
    if samples.is_empty() {
        samples.push(serde_json::json!({"note": "no case completed"}));
    }
    let ev = EvidenceOut {
        args,
        level,
        rule: rule.to_string(),
        evaluations: stats.runs.max(1),
        distinct_nontrivial: stats.nontrivial.len() as u64,
        samples,
        extra: {
            let mut j = stats_json(&stats, wall);
            j["cases_planned"] = serde_json::json!(n_cases);
            j["cases_completed"] = serde_json::json!(results.len());
            j
        },
        assumptions,
        wall_s: wall,
        violations: nviol,
        exhaustive: false,
    };
    if let Err(e) = write_evidence(ev) {
        eprintln!("cannot write evidence: {}", e);
        return 2;
    }
    println!(
        "[{}] tier={} seed={} cases={} runs={} nontrivial={} interleavings={} skipped(rejected/ref-error/compile-panic)={}/{}/{} wall={:.1}s",
        prop,
        args.tier.name(),
        args.seed,
        stats.cases,
        stats.runs,
        stats.nontrivial.len(),
        stats.interleavings.len(),
        stats.skipped_rejected,
        stats.skipped_reference_error,
        stats.compile_panics,
        wall
    );
    code
}

pub fn common_assumptions() -> Vec<String> {
    vec![
        "the stub party runtime (every party evaluates every node; a value crosses parties only at a Send-annotated NOP; non-owners supply any value of the right type) is the behaviour documented in reference/runtime.md and ciphercore_split_parties.rs; it is tied to the implementation by the control-run self-validation, not to the closed-source runtime".into(),
        "the source program evaluated in plaintext by SimpleEvaluator is the reference result".into(),
        "sampling, not proof: a clean batch is evidence".into(),
    ]
}

// ---------------------------------------------------------------------------------------------
// C02
// ---------------------------------------------------------------------------------------------

/// Generic case driver: generate, compile, reference, optional model check, then the C01 part
/// (`c01_seeds` evaluator seeds) and/or the C02 part (`junk_plans` x `schedules`).
pub fn tri_case(args: &Args, prop: &str, idx: usize, gen: &CaseGen, c01_seeds: usize, junk_plans: usize, schedules: usize) -> TriCaseOut {
    let mut stats = Stats::default();
    let mut rng = Rng::derive(args.seed, prop, idx as u64);
    stats.cases += 1;
    let mut out = TriCaseOut { stats: Stats::default(), violation: None, sample: None };
    let case = match gen(&mut rng) {
        Some(c) => c,
        None => {
            stats.skipped_rejected += 1;
            out.stats = stats;
            return out;
        }
    };
    if std::env::var("VERIF_LIST").is_ok() {
        eprintln!("CASE {} {:?} {:?} {:?} :: {}", idx, case.inline, case.owners, case.outputs, case.prog.summary().chars().take(300).collect::<String>());
    }
    let (c, refv) = match prepare(&mut stats, &case) {
        Some(x) => x,
        None => {
            out.stats = stats;
            return out;
        }
    };
    if crate::refmodels::has_model(&case) {
        if let Some(v) = crate::refmodels::model_check(&case, &c.out_type, &refv, &mut stats) {
            let mut cfg = RunCfg::control(0);
            cfg.parties = 1;
            out.violation = Some(mk_replay(args, prop, idx, "model", &case, &c, &JunkPlan::uniform(JunkKind::True, 0), 0, &cfg, &[], v));
            out.sample = Some(case_sample(&case, &c, serde_json::json!(null)));
            out.stats = stats;
            return out;
        }
    }
    if c01_seeds > 0 {
        c01_body(args, prop, idx, &mut rng, &case, &c, &refv, c01_seeds, &mut stats, &mut out);
    }
    if out.violation.is_none() && junk_plans > 0 {
        c02_body(args, prop, idx, &mut rng, &case, &c, &refv, junk_plans, schedules, &mut stats, &mut out);
    }
    if case.outputs.is_empty() {
        stats.probe("config:empty-output-set", 1);
    }
    {
        // which source operations the generated programs contain (cases using the operation at least once)
        let mut seen = std::collections::BTreeSet::new();
        for g in &case.prog.graphs {
            for s in &g.steps {
                seen.insert(op_kind(&s.op));
            }
        }
        for k in seen {
            stats.probe(&format!("source-op:{}", k), 1);
        }
    }
    if let crate::exec::Oracle::Trunc { wraps, plus_one, exact, scale, all_public, .. } = &c.oracle {
        stats.probe("truncate:elements-exact(or within 1 for general divisor)", exact.get());
        stats.probe("truncate:elements-floor-plus-one", plus_one.get());
        stats.probe("truncate:documented-wrap-around-accepted", wraps.get());
        stats.probe(if scale.is_power_of_two() { "truncate:cases-power-of-two" } else { "truncate:cases-general-divisor" }, 1);
        if *all_public {
            stats.probe("truncate:cases-public-exact", 1);
        }
    }
    if out.sample.is_none() {
        out.sample = Some(case_sample(&case, &c, serde_json::json!(null)));
    }
    out.stats = stats;
    out
}

pub fn c02_case(args: &Args, prop: &str, idx: usize, gen: &CaseGen, junk_plans: usize, schedules: usize) -> TriCaseOut {
    tri_case(args, prop, idx, gen, 0, junk_plans, schedules)
}

#[allow(clippy::too_many_arguments)]
fn c02_body(args: &Args, prop: &str, idx: usize, rng: &mut Rng, case: &Case, c: &Compiled, refv: &Value, junk_plans: usize, schedules: usize, stats: &mut Stats, out: &mut TriCaseOut) {
    let (case, c, refv) = (case.clone(), c, refv.clone());
    let mut rng = rng.fork("c02");
    let dealer_seed = rng.next_u64();
    let tapes = [rng.next_u64(), rng.next_u64(), rng.next_u64()];
    // self-validation of the simulator on a quarter of the cases
    if idx % 4 == 0 {
        if let Err(e) = self_validate(stats, &case, c, tapes[0], dealer_seed) {
            let v = crate::exec::Violation { class: "harness-self-validation".into(), detail: e };
            out.violation = Some(mk_replay(args, prop, idx, "party", &case, c, &JunkPlan::uniform(JunkKind::True, 0), dealer_seed, &RunCfg::control(tapes[0]), &[], v));
            return;
        }
    }
    // fault-free configuration: true values at every party, independent tapes, lockstep
    let mut plans: Vec<(JunkPlan, RunCfg)> = vec![(JunkPlan::uniform(JunkKind::True, 0), RunCfg::independent(tapes))];
    // fault configurations
    let kinds = [JunkKind::Zeros, JunkKind::Random, JunkKind::Poison, JunkKind::Ones];
    for j in 0..junk_plans {
        let jseed = rng.next_u64();
        let jp = if j < 3 {
            JunkPlan::uniform(kinds[j], jseed)
        } else {
            JunkPlan { kind: [*rng.pick(&kinds), *rng.pick(&kinds), *rng.pick(&kinds)], seed: jseed }
        };
        for s in 0..schedules {
            let t3 = [rng.next_u64(), rng.next_u64(), rng.next_u64()];
            let cfg = if s == 0 && j == 0 { RunCfg::independent(tapes) } else { gen_runcfg(&mut rng, t3) };
            plans.push((jp.clone(), cfg));
        }
    }
    let mut last_info = serde_json::json!(null);
    for (pi, (junk, cfg)) in plans.iter().enumerate() {
        let mut ch = Chooser::record(Rng::derive(args.seed ^ 0x5c4ed, prop, (idx * 64 + pi) as u64));
        let (r, v) = run_party(&case, c, &refv, junk, dealer_seed, cfg, &mut ch);
        account(stats, junk, cfg, &r);
        if let Some(k) = nontrivial_key(&case, c, junk, r.ev_hash) {
            stats.nontrivial.insert(k);
        }
        last_info = serde_json::json!({"junk": format!("{:?}", junk.kind), "policy": format!("{:?}", cfg.policy), "delivery": format!("{:?}", cfg.delivery),
            "restart_per_mille": cfg.restart_pm, "evaluator_instances": cfg.instances, "events": r.events, "messages": r.msgs.len(), "status": format!("{:?}", r.status)});
        if let Some(v) = v {
            if is_abort(&v) {
                stats.aborted += 1;
                continue;
            }
            if let Some(id) = known_match(&case, &v) {
                stats.probe(&format!("known-finding:{}", id), 1);
                continue;
            }
            out.violation = Some(mk_replay(args, prop, idx, "party", &case, c, junk, dealer_seed, cfg, &r.choices, v));
            break;
        }
    }
    out.sample = Some(case_sample(&case, c, last_info));
}

pub fn run_c02(args: &Args) -> i32 {
    let t0 = std::time::Instant::now();
    let n = args.cases.unwrap_or(match args.tier {
        Tier::Quick => 1200,
        Tier::Thorough => 20000,
    });
    let (jp, sc) = match args.tier {
        Tier::Quick => (3, 2),
        Tier::Thorough => (4, 2),
    };
    let results = run_cases(n, args.threads, |r: &TriCaseOut| r.violation.is_some(), |i| c02_case(args, "C02", i, &general_case, jp, sc));
    finish(
        args,
        "C02",
        "exploration",
        "cases = seeded DSL programs (swarm of operation families, <=12 steps, <=4 inputs, 11 scalar types) x owner vector x output set x inline mode, compiled by the real pipeline; each case is run fault-free (true values, independent tapes, lockstep) and under junk plans {zeros, random, poison, ones} x seeded schedules (random-topological / skewed / PCT, delayed / reordered / duplicated delivery, evaluator restarts and migration). distinct_nontrivial = distinct (program, owners, outputs, inline, junk plan, event-order hash) tuples whose compiled graph has >=1 Send and >=1 private input",
        results,
        t0.elapsed().as_secs_f64(),
        common_assumptions(),
        n,
    )
}

// ---------------------------------------------------------------------------------------------
// C01
// ---------------------------------------------------------------------------------------------

pub fn c01_case(args: &Args, prop: &str, idx: usize, gen: &CaseGen, seeds: usize) -> TriCaseOut {
    tri_case(args, prop, idx, gen, seeds, 0, 0)
}

#[allow(clippy::too_many_arguments)]
fn c01_body(args: &Args, prop: &str, idx: usize, rng: &mut Rng, case: &Case, c: &Compiled, refv: &Value, seeds: usize, stats: &mut Stats, out: &mut TriCaseOut) {
    let (case, refv) = (case.clone(), refv.clone());
    let mut rng = rng.fork("c01");
    let true_junk = JunkPlan::uniform(JunkKind::True, 0);
    let mut last_info = serde_json::json!(null);
    'seeds: for s in 0..seeds {
        let seed = rng.next_u64();
        let dealer_seed = rng.next_u64();
        // (b) the repository's own local run
        let ins = match global_inputs(&case, c, dealer_seed) {
            Ok(i) => i,
            Err(_) => break,
        };
        stats.runs += 1;
        stats.runs_fault_free += 1;
        let gr = global_run(c, ins, seed);
        let viol = match &gr {
            Ok(v) => check_global_output(&case, c, v, &refv),
            Err(e) => Some(crate::exec::Violation { class: "output-error".into(), detail: e.clone() }),
        };
        if let Some(v) = viol {
            if is_abort(&v) {
                stats.aborted += 1;
            } else if let Some(id) = known_match(&case, &v) {
                stats.probe(&format!("known-finding:{}", id), 1);
            } else {
                let mut cfg = RunCfg::control(seed);
                cfg.parties = 1;
                out.violation = Some(mk_replay(args, prop, idx, "global", &case, c, &true_junk, dealer_seed, &cfg, &[], v));
                break 'seeds;
            }
        }
        // (d) lockstep shared-tape three-party run must coincide with (b)
        if s == 0 {
            if let Err(e) = self_validate(stats, &case, c, seed, dealer_seed) {
                let v = crate::exec::Violation { class: "harness-self-validation".into(), detail: e };
                out.violation = Some(mk_replay(args, prop, idx, "party", &case, c, &true_junk, dealer_seed, &RunCfg::control(seed), &[], v));
                break 'seeds;
            }
        }
        // (c) one-party configuration: seeded topological order, restarts, migration, both tape modes
        for k in 0..2 {
            let mut cfg = gen_runcfg(&mut rng, [seed ^ (k as u64 + 1); 3]);
            cfg.parties = 1;
            cfg.delivery = Delivery::Immediate;
            if let Policy::Skewed { .. } | Policy::Pct { .. } = cfg.policy {
                cfg.policy = Policy::RandomTopo;
            }
            let mut ch = Chooser::record(Rng::derive(args.seed ^ 0xc01, prop, (idx * 64 + s * 4 + k) as u64));
            let (r, v) = run_party(&case, c, &refv, &true_junk, dealer_seed, &cfg, &mut ch);
            account(stats, &true_junk, &cfg, &r);
            if let Some(key) = nontrivial_key(&case, c, &true_junk, r.ev_hash) {
                stats.nontrivial.insert(key);
            }
            last_info = serde_json::json!({"one_party_policy": format!("{:?}", cfg.policy), "addressed_tape": cfg.addressed, "restart_per_mille": cfg.restart_pm,
                "evaluator_instances": cfg.instances, "events": r.events, "status": format!("{:?}", r.status)});
            if let Some(v) = v {
                if is_abort(&v) {
                    stats.aborted += 1;
                    continue;
                }
                if let Some(id) = known_match(&case, &v) {
                    stats.probe(&format!("known-finding:{}", id), 1);
                    continue;
                }
                out.violation = Some(mk_replay(args, prop, idx, "party", &case, c, &true_junk, dealer_seed, &cfg, &r.choices, v));
                break 'seeds;
            }
        }
    }
    out.sample = Some(case_sample(&case, c, last_info));
}

pub fn run_c01(args: &Args) -> i32 {
    let t0 = std::time::Instant::now();
    let n = args.cases.unwrap_or(match args.tier {
        Tier::Quick => 1500,
        Tier::Thorough => 30000,
    });
    let seeds = 2;
    let results = run_cases(n, args.threads, |r: &TriCaseOut| r.violation.is_some(), |i| c01_case(args, "C01", i, &general_case, seeds));
    finish(
        args,
        "C01",
        "exploration",
        "cases = seeded DSL programs x owner vector x output set (incl. empty) x inline mode, compiled by the real pipeline; per case and evaluator seed: the repository's own evaluate_graph on the compiled main graph, the lockstep shared-tape three-party control run (must coincide), and one-party runs in seeded topological orders with evaluator restarts/migration in stream and addressed tape modes. distinct_nontrivial = distinct (program, configuration, event-order hash) tuples with >=1 Send and >=1 private input",
        results,
        t0.elapsed().as_secs_f64(),
        common_assumptions(),
        n,
    )
}

pub fn run_c19(args: &Args) -> i32 {
    let t0 = std::time::Instant::now();
    let n = args.cases.unwrap_or(match args.tier {
        Tier::Quick => 160,
        Tier::Thorough => 4000,
    });
    let max_rows = 6;
    let gen = move |rng: &mut Rng| Some(crate::gen_tables::join_case(rng, max_rows).0);
    let results = run_cases(n, args.threads, |r: &TriCaseOut| r.violation.is_some(), |i| tri_case(args, "C19", i, &gen, 1, 2, 1));
    finish(
        args,
        "C19",
        "exploration",
        "cases = seeded pairs of tables (1..6 rows each, null rows anywhere, 1..3 key columns of random scalar types and row shapes, masked key entries in the masked variant, disjoint/partial/heavy key overlap, 0..2 payload columns) x 4 join types x masked/unmasked x owners x output sets x inline modes; per case: plaintext result vs the harness's reference relational join, the compiled graph's local run, and three-party simulated runs under junk/tape/schedule/network faults. distinct_nontrivial as in C02",
        results,
        t0.elapsed().as_secs_f64(),
        common_assumptions(),
        n,
    )
}

pub fn run_c05(args: &Args) -> i32 {
    let t0 = std::time::Instant::now();
    let n = args.cases.unwrap_or(match args.tier {
        Tier::Quick => 20000,
        Tier::Thorough => 100000,
    });
    // the case index is needed by the generator (exhaustive 8-bit cases come first)
    let results = run_cases(n, args.threads, |r: &TriCaseOut| r.violation.is_some(), |i| {
        let gen = move |rng: &mut Rng| Some(crate::gen_tables::truncate_case(rng, i));
        tri_case(args, "C05", i, &gen, 3, 2, 2)
    });
    finish(
        args,
        "C05",
        "exploration",
        "cases = one-Truncate graphs and Multiply->Truncate (fixed-point product) over all 10 integer scalar types; divisors 2^k for every k in 1..w-2 and non-power-of-two divisors; scalar and array shapes; owners/outputs/inline modes; inputs biased to the boundaries of the documented range (0, +-1, +-2^k, +-2^k-+1, multiples of the divisor +-1, -M/4, M/4-1, M/2-1); the first 24 cases enumerate EVERY admissible i8/u8 input for every k in 1..6. Per case: local runs with 3 evaluator seeds, one-party scheduled runs, and three-party runs with independent tapes, junk and random schedules. Oracle: result - floor(x/2^k) in {0,1}; general divisor (signed): |result - quotient| <= 1, or the documented wrap-around class (counted; not accepted for |x| < 2^16 on 64/128-bit types); public operands exact",
        results,
        t0.elapsed().as_secs_f64(),
        common_assumptions(),
        n,
    )
}

pub fn run_c18(args: &Args) -> i32 {
    let t0 = std::time::Instant::now();
    let n = args.cases.unwrap_or(match args.tier {
        Tier::Quick => 900,
        Tier::Thorough => 30000,
    });
    let gen = move |rng: &mut Rng| {
        Some(if rng.chance(2, 3) { crate::gen_tables::sort_case(rng).0 } else { crate::gen_tables::perm_case(rng).0 })
    };
    let results = run_cases(n, args.threads, |r: &TriCaseOut| r.violation.is_some(), |i| tri_case(args, "C18", i, &gen, 1, 2, 1));
    finish(
        args,
        "C18",
        "exploration",
        "cases = seeded tables (1..12 rows, bit keys of width 1..10 or integer keys of all integer types, heavy key duplication, 0..2 payload columns of any scalar type and rank) sorted by Sort / SortByIntegerKey, and ApplyPermutation(+-inverse) round trips; per case: plaintext result vs reference stable sort / permutation model, compiled local run, three-party simulated runs under junk/tape/schedule/network faults",
        results,
        t0.elapsed().as_secs_f64(),
        common_assumptions(),
        n,
    )
}

pub fn replay_cmd(args: &Args, path: &str) -> i32 {
    let s = match std::fs::read_to_string(path) {
        Ok(s) => s,
        Err(e) => {
            eprintln!("cannot read {}: {}", path, e);
            return 2;
        }
    };
    let rp: TriReplay = match serde_json::from_str(&s) {
        Ok(r) => r,
        Err(e) => {
            eprintln!("cannot parse replay {}: {}", path, e);
            return 2;
        }
    };
    if args.extra.iter().any(|x| x == "--dump") {
        dump_replay(&rp);
    }
    if let Some(pos) = args.extra.iter().position(|x| x == "--sweep") {
        // development aid: re-run the replayed case in the repository's local run under many evaluator seeds
        let n: u64 = args.extra.get(pos + 1).and_then(|x| x.parse().ok()).unwrap_or(1000);
        if let CompileOutcome::Ok(c) = compile_case(&rp.case) {
            if let Ok(refv) = reference(&c, &rp.case.inputs) {
                let mut bad = 0;
                for s in 0..n {
                    if let Ok(ins) = global_inputs(&rp.case, &c, s) {
                        match global_run(&c, ins, s.wrapping_mul(0x9E37_79B9) + 1) {
                            Ok(v) => {
                                if check_global_output(&rp.case, &c, &v, &refv).is_some() {
                                    bad += 1;
                                }
                            }
                            Err(_) => bad += 1,
                        }
                    }
                }
                println!("sweep: {} of {} evaluator seeds give a wrong result", bad, n);
            }
        }
        return 0;
    }
    match replay_tri(&rp) {
        Ok(Some(v)) => {
            println!("VIOLATION property={} replay={}", rp.property, path);
            println!("  class={} detail={}", v.class, v.detail);
            if v.class != rp.violation.class {
                println!("  note: recorded class was {}", rp.violation.class);
            }
            let _ = args;
            1
        }
        Ok(None) => {
            println!("replay {}: no violation reproduced (recorded: {})", path, rp.violation.class);
            0
        }
        Err(e) => {
            eprintln!("replay error: {}", e);
            2
        }
    }
}

pub fn dump_replay(rp: &TriReplay) {
    let c = match compile_case(&rp.case) {
        CompileOutcome::Ok(c) => c,
        _ => {
            println!("dump: does not compile");
            return;
        }
    };
    let refv = reference(&c, &rp.case.inputs);
    println!("program: {}", rp.case.prog.summary());
    println!("owners {:?} outputs {:?} inline {:?}", rp.case.owners, rp.case.outputs, rp.case.inline);
    println!("out type: {}", crate::dsl::type_str(&c.out_type));
    if let Ok(r) = &refv {
        println!("reference: {}", crate::vals::render(&c.out_type, r));
    } else {
        println!("reference error: {:?}", refv.as_ref().err());
    }
    let shared_t = crate::exec::shared_type(&c.out_type);
    let ot = if rp.case.outputs.is_empty() { &shared_t } else { &c.out_type };
    if let Ok(ins) = global_inputs(&rp.case, &c, rp.dealer_seed) {
        match global_run(&c, ins, rp.cfg.tapes[0]) {
            Ok(v) => {
                println!("global run: {}", crate::vals::render(ot, &v));
                println!("global raw: {}", crate::vals::raw_bytes_hex(&v));
                if let Ok(r) = &refv {
                    println!("ref raw:    {}", crate::vals::raw_bytes_hex(r));
                }
            }
            Err(e) => println!("global run error: {}", e),
        }
    }
    if let Ok(inputs) = crate::exec::party_inputs(&rp.case, &c, &rp.junk, rp.dealer_seed) {
        let mut ch = Chooser::replay(rp.choices.clone());
        let r = crate::trisim::Sim::new(&c.gv, rp.cfg.clone()).run(&inputs, &mut ch);
        println!("status: {:?} events {} msgs {}", r.status, r.events, r.msgs.len());
        for (p, o) in r.out.iter().enumerate() {
            println!("party {} out: {}", p, crate::trisim::render_pv(ot, o));
        }
        for e in &r.first_errors {
            println!("first error: party {} node {}: {}", e.0, e.1, e.2);
        }
        if rp.cfg.keep_values || true {
            for (i, n) in c.gv.nodes.iter().enumerate() {
                println!("  n{:<4} {:<40} deps {:?} sends {:?} type {}", i, n.op_tag().chars().take(40).collect::<String>(), n.deps, n.sends, crate::dsl::type_str(&n.ty));
                if i > 400 {
                    break;
                }
            }
        }
    }
}

/// Variant name of an operation (custom operations by their name up to the first parameter).
pub fn op_kind(op: &ciphercore_base::graphs::Operation) -> String {
    use ciphercore_base::graphs::Operation;
    match op {
        Operation::Custom(c) => {
            let n = c.get_name();
            let cut = n.find(|ch: char| ch == '(' || ch == '{' || ch == '-' || ch == ' ').unwrap_or(n.len());
            format!("Custom:{}", &n[..cut])
        }
        o => {
            let s = format!("{:?}", o);
            let cut = s.find(|ch: char| ch == '(' || ch == '{' || ch == ' ').unwrap_or(s.len());
            s[..cut].to_string()
        }
    }
}

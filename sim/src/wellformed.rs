//! Well-formedness invariants of a Context observed through public getters (shared by C11 and C12).

use ciphercore_base::data_types::Type;
use ciphercore_base::graphs::{Context, Operation};

pub fn es(e: ciphercore_base::errors::Error) -> String {
    crate::dsl::es(e)
}

/// Global invariants: dense ids in creation order, dependencies precede users and live in the same
/// graph, callees finalized and older, names resolve back, every stored node has a valid type.
/// (context finalized, per-graph finalized) read off the serialised form: the only public,
/// non-mutating observer of the finalization flags.
pub fn finalized_flags(ctx: &Context) -> Result<(bool, Vec<bool>), String> {
    let s = serde_json::to_string(ctx).map_err(|e| e.to_string())?;
    let outer: serde_json::Value = serde_json::from_str(&s).map_err(|e| e.to_string())?;
    let inner_s = outer.get("data").and_then(|d| d.as_str()).ok_or("no data field")?;
    let inner: serde_json::Value = serde_json::from_str(inner_s).map_err(|e| e.to_string())?;
    let cf = inner.get("finalized").and_then(|b| b.as_bool()).ok_or("no finalized flag")?;
    let gs = inner.get("graphs").and_then(|g| g.as_array()).ok_or("no graphs")?;
    let flags = gs.iter().map(|g| g.get("finalized").and_then(|b| b.as_bool()).unwrap_or(false)).collect();
    Ok((cf, flags))
}

pub fn check_context(ctx: &Context) -> Result<(), String> {
    let (_cf, gflags) = finalized_flags(ctx)?;
    let graphs = ctx.get_graphs();
    if gflags.len() != graphs.len() {
        return Err("serialised graph count disagrees with get_graphs".into());
    }
    if graphs.len() as u64 != ctx.get_num_graphs() {
        return Err("get_num_graphs disagrees with get_graphs".into());
    }
    for (gi, g) in graphs.iter().enumerate() {
        if g.get_id() != gi as u64 {
            return Err(format!("graph ids not dense: position {} has id {}", gi, g.get_id()));
        }
        if g.get_context() != *ctx {
            return Err(format!("graph {} belongs to another context", gi));
        }
        match ctx.get_graph_by_id(gi as u64) {
            Ok(g2) if g2 == *g => {}
            _ => return Err(format!("get_graph_by_id({}) does not return the graph", gi)),
        }
        let nodes = g.get_nodes();
        if nodes.len() as u64 != g.get_num_nodes() {
            return Err(format!("graph {}: get_num_nodes disagrees with get_nodes", gi));
        }
        for (ni, n) in nodes.iter().enumerate() {
            if n.get_id() != ni as u64 {
                return Err(format!("graph {}: node ids not dense: position {} has id {}", gi, ni, n.get_id()));
            }
            if n.get_graph() != *g {
                return Err(format!("node ({},{}) reports another graph", gi, ni));
            }
            if n.get_global_id() != (gi as u64, ni as u64) {
                return Err(format!("node ({},{}) has global id {:?}", gi, ni, n.get_global_id()));
            }
            for d in n.get_node_dependencies() {
                if d.get_graph() != *g {
                    return Err(format!("node ({},{}) depends on a node of another graph", gi, ni));
                }
                if d.get_id() >= ni as u64 {
                    return Err(format!("node ({},{}) depends on later node {}", gi, ni, d.get_id()));
                }
                if nodes[d.get_id() as usize] != d {
                    return Err(format!("node ({},{}) dependency {} is not the stored node", gi, ni, d.get_id()));
                }
            }
            for dg in n.get_graph_dependencies() {
                if dg.get_context() != *ctx {
                    return Err(format!("node ({},{}) calls a graph of another context", gi, ni));
                }
                if dg.get_id() >= gi as u64 {
                    return Err(format!("node ({},{}) calls graph {} which is not older", gi, ni, dg.get_id()));
                }
                if !gflags[dg.get_id() as usize] {
                    return Err(format!("node ({},{}) calls an unfinalized graph {}", gi, ni, dg.get_id()));
                }
            }
            match n.get_operation() {
                Operation::Call | Operation::Iterate => {
                    if n.get_graph_dependencies().is_empty() {
                        return Err(format!("node ({},{}) Call/Iterate without callee", gi, ni));
                    }
                }
                _ => {}
            }
            match n.get_type() {
                Ok(t) => {
                    if !type_ok(&t) || !t.is_valid() {
                        return Err(format!("node ({},{}) has an invalid type {:?}", gi, ni, t));
                    }
                }
                Err(e) => return Err(format!("node ({},{}) ({}) has no valid type: {}", gi, ni, n.get_operation(), es(e))),
            }
            // the stored value of a constant has the layout of its declared type
            if let Operation::Constant(t, v) = n.get_operation() {
                if let Err(e) = layout_matches(&t, &v) {
                    return Err(format!("node ({},{}) is a constant whose value does not fit its type {}: {}", gi, ni, t, e));
                }
            }
            // names resolve back
            match n.get_name() {
                Ok(Some(name)) => match g.retrieve_node(&name) {
                    Ok(m) if m == *n => {}
                    _ => return Err(format!("node ({},{}) named {:?} does not resolve back", gi, ni, name)),
                },
                Ok(None) => {}
                Err(e) => return Err(format!("node ({},{}) get_name error {}", gi, ni, es(e))),
            }
            if n.get_annotations().is_err() {
                return Err(format!("node ({},{}) get_annotations error", gi, ni));
            }
        }
        if let Ok(o) = g.get_output_node() {
            if o.get_graph() != *g || (o.get_id() as usize) >= nodes.len() || nodes[o.get_id() as usize] != o {
                return Err(format!("graph {}: output node is not a stored node of the graph", gi));
            }
        }
        if let Ok(name) = g.get_name() {
            match ctx.retrieve_graph(&name) {
                Ok(g2) if g2 == *g => {}
                _ => return Err(format!("graph {} named {:?} does not resolve back", gi, name)),
            }
        }
    }
    if let Ok(m) = ctx.get_main_graph() {
        if m.get_context() != *ctx || (m.get_id() as usize) >= graphs.len() || graphs[m.get_id() as usize] != m {
            return Err("main graph is not a stored graph of the context".into());
        }
    }
    Ok(())
}

/// Layout of a value against a type, written independently of `Value::check_type`: byte lengths of leaves and entry
/// counts of tuples, named tuples and vectors (padding bits are not looked at).
pub fn layout_matches(t: &ciphercore_base::data_types::Type, v: &ciphercore_base::data_values::Value) -> Result<(), String> {
    use crate::vals::{as_bytes, as_vec, children_types, is_leaf_type, num_elems};
    if is_leaf_type(t) {
        let b = as_bytes(v).ok_or("a leaf type with a container value")?;
        let st = t.get_scalar_type();
        let n = num_elems(t);
        let need = if st == ciphercore_base::data_types::BIT { (n + 7) / 8 } else { n * (crate::vals::st_bits(st) as usize / 8) };
        if b.len() != need {
            return Err(format!("{} bytes stored, {} needed", b.len(), need));
        }
        Ok(())
    } else {
        let vs = as_vec(v).ok_or("a container type with a byte value")?;
        let cts = children_types(t);
        if vs.len() != cts.len() {
            return Err(format!("{} entries stored, the type declares {}", vs.len(), cts.len()));
        }
        for (ct, cv) in cts.iter().zip(vs.iter()) {
            layout_matches(ct, cv)?;
        }
        Ok(())
    }
}

/// Validity of a type, written from the documentation of `Type::is_valid` (independent of it): every array has a
/// non-empty shape without zero dimensions whose number of elements fits 64 bits, and the field names of every named
/// tuple are pairwise distinct; recursively.
pub fn type_ok(t: &Type) -> bool {
    match t {
        Type::Scalar(_) => true,
        Type::Array(shape, _) => {
            if shape.is_empty() || shape.iter().any(|d| *d == 0) {
                return false;
            }
            let mut prod: u128 = 1;
            for d in shape {
                prod = prod.saturating_mul(*d as u128);
                if prod > u64::MAX as u128 {
                    return false;
                }
            }
            true
        }
        Type::Vector(_, e) => type_ok(e),
        Type::Tuple(es) => es.iter().all(|e| type_ok(e)),
        Type::NamedTuple(es) => {
            for i in 0..es.len() {
                for j in 0..i {
                    if es[i].0 == es[j].0 {
                        return false;
                    }
                }
            }
            es.iter().all(|(_, e)| type_ok(e))
        }
    }
}

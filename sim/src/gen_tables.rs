//! Workload generators for table operations: joins (C19), sorts and permutations (C18).

use crate::dsl::{GraphD, Prog, Step};
use crate::exec::{Case, Inline, Owner};
use crate::gen::{gen_inline, gen_outputs, gen_owners, ALL_ST};
use crate::rng::Rng;
use crate::vals::{enc, st_mask};
use ciphercore_base::custom_ops::CustomOperation;
use ciphercore_base::data_types::{array_type, named_tuple_type, tuple_type, ScalarType, Type, BIT, UINT64};
use ciphercore_base::data_values::Value;
use ciphercore_base::graphs::{JoinType, Operation};
use ciphercore_base::ops::integer_key_sort::SortByIntegerKey;
use ciphercore_base::type_inference::NULL_HEADER;
use serde::{Deserialize, Serialize};

#[derive(Clone, Debug, Serialize, Deserialize)]
pub struct ColSpec {
    pub name: String,
    pub st: ScalarType,
    pub row_shape: Vec<u64>,
}

#[derive(Clone, Debug)]
pub struct Table {
    pub n: usize,
    pub cols: Vec<ColSpec>,
    /// position of the null column among the named-tuple fields
    pub null_pos: usize,
    pub null: Vec<u8>,
    /// per column: per row mask (only meaningful in masked variant)
    pub masks: Vec<Vec<u8>>,
    /// per column: flattened data, n * row_elems
    pub data: Vec<Vec<u128>>,
}

impl ColSpec {
    pub fn row_elems(&self) -> usize {
        self.row_shape.iter().product::<u64>() as usize
    }
    pub fn data_type(&self, n: usize) -> Type {
        let mut s = vec![n as u64];
        s.extend(self.row_shape.iter());
        array_type(s, self.st)
    }
}

impl Table {
    pub fn ty(&self, masked: bool) -> Type {
        let mut fields = vec![];
        let mut ci = 0;
        for pos in 0..=self.cols.len() {
            if pos == self.null_pos {
                fields.push((NULL_HEADER.to_string(), array_type(vec![self.n as u64], BIT)));
            } else {
                let c = &self.cols[ci];
                let dt = c.data_type(self.n);
                let t = if masked { tuple_type(vec![array_type(vec![self.n as u64], BIT), dt]) } else { dt };
                fields.push((c.name.clone(), t));
                ci += 1;
            }
        }
        named_tuple_type(fields)
    }
    pub fn value(&self, masked: bool) -> Value {
        let mut fields = vec![];
        let mut ci = 0;
        for pos in 0..=self.cols.len() {
            if pos == self.null_pos {
                fields.push(enc(&self.null.iter().map(|x| *x as u128).collect::<Vec<_>>(), BIT));
            } else {
                let c = &self.cols[ci];
                let dv = enc(&self.data[ci], c.st);
                if masked {
                    let mv = enc(&self.masks[ci].iter().map(|x| *x as u128).collect::<Vec<_>>(), BIT);
                    fields.push(Value::from_vector(vec![mv, dv]));
                } else {
                    fields.push(dv);
                }
                ci += 1;
            }
        }
        Value::from_vector(fields)
    }
}

#[derive(Clone, Debug)]
pub struct JoinCase {
    pub t0: Table,
    pub t1: Table,
    pub join_t: JoinType,
    pub masked: bool,
    /// (header in table 0, header in table 1)
    pub keys: Vec<(String, String)>,
}

fn small_st(rng: &mut Rng) -> ScalarType {
    // narrow types dominate so that the protocol stays small; all 11 occur
    let w = [3u64, 4, 3, 2, 2, 2, 2, 2, 1, 1, 1];
    ALL_ST[rng.weighted(&w)]
}

fn gen_keyed_table(
    rng: &mut Rng,
    n: usize,
    key_specs: &[ColSpec],
    key_names: &[String],
    extra_prefix: &str,
    masked: bool,
    key_pool: &[Vec<Vec<u128>>],
    borrowed_names: &[(String, Option<(ScalarType, Vec<u64>)>)],
    all_dead: bool,
) -> Table {
    let mut cols = vec![];
    for (i, ks) in key_specs.iter().enumerate() {
        cols.push(ColSpec { name: key_names[i].clone(), st: ks.st, row_shape: ks.row_shape.clone() });
    }
    let extra = rng.usize_below(3).max(borrowed_names.len().min(2));
    for i in 0..extra {
        let st = small_st(rng);
        let row_shape = match rng.below(4) {
            0 => vec![1 + rng.below(3)],
            _ => vec![],
        };
        // a payload column may carry the name of a key column of the OTHER table (legal when that key is paired with
        // a differently named key column here)
        if i < borrowed_names.len() {
            let (name, spec) = borrowed_names[i].clone();
            match spec {
                Some((st, row_shape)) => cols.push(ColSpec { name, st, row_shape }),
                None => cols.push(ColSpec { name, st, row_shape }),
            }
            continue;
        }
        cols.push(ColSpec { name: format!("{}{}", extra_prefix, i), st, row_shape });
    }
    // shuffle column order (keys need not come first)
    rng.shuffle(&mut cols);
    let null_pos = rng.usize_below(cols.len() + 1);
    let null: Vec<u8> = (0..n).map(|_| if !all_dead && rng.chance(3, 4) { 1 } else { 0 }).collect();
    let mut masks: Vec<Vec<u8>> = cols.iter().map(|_| (0..n).map(|_| if masked && rng.chance(1, 6) { 0 } else { 1 }).collect()).collect();
    // choose distinct key tuples for rows: indices into key_pool, unique per live row
    let mut avail: Vec<usize> = (0..key_pool.len()).collect();
    rng.shuffle(&mut avail);
    let mut data: Vec<Vec<u128>> = cols.iter().map(|_| vec![]).collect();
    for r in 0..n {
        // dead rows may reuse any key (they are ignored); live rows take a fresh key tuple
        let kt = if null[r] == 1 || rng.chance(1, 2) {
            if avail.is_empty() {
                // not enough distinct keys: kill the row
                None
            } else {
                Some(avail.pop().unwrap())
            }
        } else {
            Some(rng.usize_below(key_pool.len()))
        };
        for (ci, c) in cols.iter().enumerate() {
            let ki = key_names.iter().position(|k| *k == c.name);
            match (ki, kt) {
                (Some(ki), Some(kt)) => data[ci].extend(key_pool[kt][ki].iter()),
                _ => {
                    for _ in 0..c.row_elems() {
                        data[ci].push(if rng.chance(1, 5) { 0 } else { rng.next_u128() & st_mask(c.st) });
                    }
                }
            }
        }
        if kt.is_none() {
            // handled below by clearing the null bit
        }
    }
    let mut null = null;
    // rows that could not get a unique key are dead
    // (recompute: a live row whose key tuple equals another live row's key tuple is killed)
    let key_cols: Vec<usize> = key_names.iter().map(|k| cols.iter().position(|c| c.name == *k).unwrap()).collect();
    let row_key = |r: usize, data: &Vec<Vec<u128>>| -> Vec<u128> {
        let mut k = vec![];
        for ci in &key_cols {
            let re = cols[*ci].row_elems();
            k.extend(data[*ci][r * re..(r + 1) * re].iter());
        }
        k
    };
    let mut seen: Vec<Vec<u128>> = vec![];
    for r in 0..n {
        if null[r] == 0 {
            continue;
        }
        let all_masks_one = key_cols.iter().all(|ci| masks[*ci][r] == 1);
        if masked && !all_masks_one {
            continue;
        }
        let k = row_key(r, &data);
        if seen.contains(&k) {
            null[r] = 0;
        } else {
            seen.push(k);
        }
    }
    if !masked {
        for m in masks.iter_mut() {
            for x in m.iter_mut() {
                *x = 1;
            }
        }
    }
    Table { n, cols, null_pos, null, masks, data }
}

pub fn gen_join_case(rng: &mut Rng, max_rows: usize) -> JoinCase {
    let masked = rng.chance(1, 3);
    let join_t = *rng.pick(&[JoinType::Inner, JoinType::Left, JoinType::Union, JoinType::Full]);
    let nk = 1 + rng.weighted(&[5, 3, 1]);
    let mut key_specs = vec![];
    for _ in 0..nk {
        let st = small_st(rng);
        let row_shape = match rng.below(5) {
            0 => vec![2],
            1 if st == BIT => vec![1 + rng.below(5)],
            _ => vec![],
        };
        key_specs.push(ColSpec { name: String::new(), st, row_shape });
    }
    let n0 = 1 + rng.usize_below(max_rows);
    let n1 = 1 + rng.usize_below(max_rows);
    // key pool: overlap pattern decided by pool size relative to n0 + n1
    let pool_size = match rng.below(3) {
        0 => n0 + n1 + 2, // mostly disjoint
        1 => n0.max(n1) + 1, // partial overlap
        _ => n0.max(n1),  // heavy overlap
    };
    let mut key_pool: Vec<Vec<Vec<u128>>> = vec![];
    let mut guard = 0;
    while key_pool.len() < pool_size && guard < 1000 {
        guard += 1;
        let kt: Vec<Vec<u128>> = key_specs
            .iter()
            .map(|ks| {
                (0..ks.row_shape.iter().product::<u64>() as usize)
                    .map(|_| if rng.chance(2, 3) { rng.below(4) as u128 } else { rng.next_u128() } & st_mask(ks.st))
                    .collect()
            })
            .collect();
        if !key_pool.contains(&kt) {
            key_pool.push(kt);
        }
    }
    let names0: Vec<String> = (0..nk).map(|i| format!("k{}", i)).collect();
    // second table: same header names or different ones
    let names1: Vec<String> = (0..nk).map(|i| if rng.chance(1, 2) { format!("k{}", i) } else { format!("j{}", i) }).collect();
    // payload columns of the first table named like a (differently named) key column of the second table
    // (half of the time with the type of that key column as well)
    let borrowed: Vec<(String, Option<(ScalarType, Vec<u64>)>)> = if rng.chance(1, 3) {
        names1
            .iter()
            .enumerate()
            .filter(|(_, h)| !names0.contains(h))
            .map(|(i, h)| (h.clone(), if rng.chance(2, 3) { Some((key_specs[i].st, key_specs[i].row_shape.clone())) } else { None }))
            .collect()
    } else {
        vec![]
    };
    // a table without any live row now and then (fast paths for "nothing to match")
    let dead0 = rng.chance(1, 14);
    let dead1 = rng.chance(1, 10);
    let t0 = gen_keyed_table(rng, n0, &key_specs, &names0, "p", masked, &key_pool, &borrowed, dead0);
    let t1 = gen_keyed_table(rng, n1, &key_specs, &names1, "q", masked, &key_pool, &[], dead1);
    let keys: Vec<(String, String)> = names0.into_iter().zip(names1.into_iter()).collect();
    JoinCase { t0, t1, join_t, masked, keys }
}

pub fn join_prog(jc: &JoinCase) -> Prog {
    let headers = crate::dsl::canon_headers(&jc.keys);
    let op = if jc.masked { Operation::JoinWithColumnMasks(jc.join_t, headers) } else { Operation::Join(jc.join_t, headers) };
    Prog {
        graphs: vec![GraphD {
            steps: vec![
                Step { op: Operation::Input(jc.t0.ty(jc.masked)), deps: vec![], gdeps: vec![] },
                Step { op: Operation::Input(jc.t1.ty(jc.masked)), deps: vec![], gdeps: vec![] },
                Step { op, deps: vec![0, 1], gdeps: vec![] },
            ],
            output: 2,
            annotations: vec![],
            ..Default::default()
        }],
    }
}

pub fn join_case(rng: &mut Rng, max_rows: usize) -> (Case, JoinCase) {
    let jc = gen_join_case(rng, max_rows);
    let prog = join_prog(&jc);
    let owners = gen_owners(2, rng);
    let outputs = gen_outputs(rng);
    let inline = gen_inline(rng);
    let inputs = vec![jc.t0.value(jc.masked), jc.t1.value(jc.masked)];
    (Case { prog, owners, outputs, inline, inputs }, jc)
}

// ---------------------------------------------------------------------------------------------
// Sort / permutation workloads
// ---------------------------------------------------------------------------------------------

#[derive(Clone, Debug)]
pub struct SortCase {
    pub n: usize,
    pub key_name: String,
    /// bit key: width; integer key: scalar type
    pub key_bits: Option<usize>,
    pub key_st: ScalarType,
    pub cols: Vec<ColSpec>,
    pub data: Vec<Vec<u128>>,
}

pub fn gen_sort_case(rng: &mut Rng, integer_key: bool) -> SortCase {
    // long tables with few distinct keys now and then: sorting routines switch algorithms with the length, and the
    // order of equal keys is only visible with a payload column
    let long = rng.chance(1, 8);
    let n = if long { 25 + rng.usize_below(100) } else { 1 + rng.usize_below(12) };
    let mut cols = vec![];
    let mut data = vec![];
    let (key_bits, key_st) = if integer_key {
        let ints: Vec<ScalarType> = ALL_ST.iter().cloned().filter(|s| *s != BIT && (!long || crate::vals::st_bits(*s) <= 16)).collect();
        (None, *rng.pick(&ints))
    } else {
        (Some(1 + rng.usize_below(if long { 3 } else { 10 })), BIT)
    };
    let key_name = "key".to_string();
    let kc = ColSpec { name: key_name.clone(), st: key_st, row_shape: key_bits.map(|b| vec![b as u64]).unwrap_or_default() };
    // heavy duplication: draw keys from a tiny domain
    let domain = 1 + rng.below(4);
    let mut kd = vec![];
    for _ in 0..n {
        if let Some(b) = key_bits {
            let x = if rng.chance(3, 4) { rng.below(domain) as u128 } else { rng.next_u128() };
            for i in 0..b {
                kd.push((x >> (b - 1 - i).min(127)) & 1);
            }
        } else {
            let m = st_mask(key_st);
            let x = match rng.below(6) {
                0 => 0,
                1 => m,
                2 => (m >> 1) + 1,
                3 => m >> 1,
                _ => rng.below(domain) as u128,
            };
            kd.push(x & m);
        }
    }
    let extra = if long { 1 + rng.usize_below(2) } else { rng.usize_below(3) };
    let key_pos = rng.usize_below(extra + 1);
    for i in 0..=extra {
        if i == key_pos {
            cols.push(kc.clone());
            data.push(kd.clone());
        } else {
            let st = small_st(rng);
            let row_shape = match rng.below(4) {
                0 => vec![1 + rng.below(3)],
                1 => vec![2, 2],
                _ => vec![],
            };
            // payload names in no particular (in particular not alphabetical) order relative to each other and to "key"
            const NAMES: [&str; 10] = ["val", "row", "a", "zz", "B", "x1", "_p", "kez", "m", "Key"];
            let name = loop {
                let cand = if rng.chance(1, 4) { format!("c{}", i) } else { NAMES[rng.usize_below(NAMES.len())].to_string() };
                if !cols.iter().any(|c: &ColSpec| c.name == cand) {
                    break cand;
                }
            };
            let c = ColSpec { name, st, row_shape };
            let d: Vec<u128> = (0..n * c.row_elems()).map(|_| rng.next_u128() & st_mask(st)).collect();
            cols.push(c);
            data.push(d);
        }
    }
    SortCase { n, key_name, key_bits, key_st, cols, data }
}

impl SortCase {
    pub fn ty(&self) -> Type {
        named_tuple_type(self.cols.iter().map(|c| (c.name.clone(), c.data_type(self.n))).collect())
    }
    pub fn value(&self) -> Value {
        Value::from_vector(self.cols.iter().zip(self.data.iter()).map(|(c, d)| enc(d, c.st)).collect())
    }
}

pub fn sort_case(rng: &mut Rng) -> (Case, SortCase) {
    let integer_key = rng.chance(1, 3);
    let sc = gen_sort_case(rng, integer_key);
    let op = if integer_key {
        Operation::Custom(CustomOperation::new(SortByIntegerKey { key: sc.key_name.clone() }))
    } else {
        Operation::Sort(sc.key_name.clone())
    };
    let prog = Prog {
        graphs: vec![GraphD {
            steps: vec![Step { op: Operation::Input(sc.ty()), deps: vec![], gdeps: vec![] }, Step { op, deps: vec![0], gdeps: vec![] }],
            output: 1,
            annotations: vec![],
            ..Default::default()
        }],
    };
    let owners = gen_owners(1, rng);
    let outputs = gen_outputs(rng);
    let inline = gen_inline(rng);
    let inputs = vec![sc.value()];
    (Case { prog, owners, outputs, inline, inputs }, sc)
}

#[derive(Clone, Debug)]
pub struct PermCase {
    pub n: usize,
    pub col: ColSpec,
    pub data: Vec<u128>,
    pub perm: Vec<u64>,
    pub inverse: bool,
    pub round_trip: bool,
}

pub fn perm_case(rng: &mut Rng) -> (Case, PermCase) {
    let n = 1 + rng.usize_below(10);
    let st = small_st(rng);
    let row_shape = match rng.below(4) {
        0 => vec![1 + rng.below(3)],
        1 => vec![2, 2],
        _ => vec![],
    };
    let col = ColSpec { name: "a".into(), st, row_shape };
    let data: Vec<u128> = (0..n * col.row_elems()).map(|_| rng.next_u128() & st_mask(st)).collect();
    let mut perm: Vec<u64> = (0..n as u64).collect();
    rng.shuffle(&mut perm);
    let inverse = rng.chance(1, 2);
    let round_trip = rng.chance(1, 2);
    let mut steps = vec![
        Step { op: Operation::Input(col.data_type(n)), deps: vec![], gdeps: vec![] },
        Step { op: Operation::Input(array_type(vec![n as u64], UINT64)), deps: vec![], gdeps: vec![] },
        Step { op: Operation::ApplyPermutation(inverse), deps: vec![0, 1], gdeps: vec![] },
    ];
    if round_trip {
        steps.push(Step { op: Operation::ApplyPermutation(!inverse), deps: vec![2, 1], gdeps: vec![] });
    }
    let output = steps.len() - 1;
    let prog = Prog { graphs: vec![GraphD { steps, output, annotations: vec![], ..Default::default() }] };
    let owners = gen_owners(2, rng);
    let outputs = gen_outputs(rng);
    let inline = gen_inline(rng);
    let inputs = vec![enc(&data, st), enc(&perm.iter().map(|x| *x as u128).collect::<Vec<_>>(), UINT64)];
    (Case { prog, owners, outputs, inline, inputs }, PermCase { n, col, data, perm, inverse, round_trip })
}

#[allow(dead_code)]
fn _u(_: Owner, _: Inline) {}

// ---------------------------------------------------------------------------------------------
// Truncation workloads (C05)
// ---------------------------------------------------------------------------------------------

pub fn trunc_boundary_value(st: ScalarType, k: u32, rng: &mut Rng) -> u128 {
    let w = st.size_in_bits() as u32;
    let m = st_mask(st);
    let signed = st.is_signed();
    // admissible range: signed [-M/4, M/4), unsigned [0, M/2)
    let (lo, hi): (i128, i128) = if signed {
        if w >= 128 {
            (-(1i128 << 125), (1i128 << 125) - 1)
        } else {
            (-(1i128 << (w - 2)), (1i128 << (w - 2)) - 1)
        }
    } else if w >= 128 {
        (0, i128::MAX >> 1)
    } else {
        (0, (1i128 << (w - 1)) - 1)
    };
    let p = 1i128 << k.min(120);
    let cands: Vec<i128> = vec![0, 1, -1, p, -p, p - 1, -p + 1, p + 1, -p - 1, 2 * p, 2 * p - 1, 3 * p + 1, lo, lo + 1, hi, hi - 1, hi / 2, lo / 2];
    let v = match rng.below(4) {
        0 | 1 => *rng.pick(&cands),
        2 => {
            // multiple of the divisor +- 1
            let q = (rng.next_u64() as i128) % ((hi / p).max(1));
            q * p + (rng.below(3) as i128 - 1)
        }
        _ => {
            let span = (hi - lo) as u128 + 1;
            lo + (rng.next_u128() % span) as i128
        }
    };
    let v = v.clamp(lo, hi);
    (v as u128) & m
}

pub fn truncate_case(rng: &mut Rng, idx: usize) -> Case {
    let ints: Vec<ScalarType> = ALL_ST.iter().cloned().filter(|s| *s != BIT).collect();
    // the first cases enumerate all admissible 8-bit inputs for every k
    let exhaustive: Vec<(ScalarType, u32)> = [ciphercore_base::data_types::INT8, ciphercore_base::data_types::UINT8]
        .iter()
        .flat_map(|st| (1..=6u32).map(move |k| (*st, k)))
        .collect();
    if idx < exhaustive.len() * 2 {
        let (st, k) = exhaustive[idx % exhaustive.len()];
        let vals: Vec<u128> = if st.is_signed() { (-64i128..64).map(|x| (x as u128) & 0xff).collect() } else { (0u128..128).collect() };
        let t = array_type(vec![vals.len() as u64], st);
        let prog = Prog {
            graphs: vec![GraphD {
                steps: vec![
                    Step { op: Operation::Input(t), deps: vec![], gdeps: vec![] },
                    Step { op: Operation::Truncate(1u128 << k), deps: vec![0], gdeps: vec![] },
                ],
                output: 1,
                ..Default::default()
            }],
        };
        let owners = vec![*rng.pick(&[Owner::Party(0), Owner::Party(1), Owner::Party(2), Owner::Shared])];
        return Case { prog, owners, outputs: gen_outputs(rng), inline: gen_inline(rng), inputs: vec![enc(&vals, st)] };
    }
    let st = *rng.pick(&ints);
    let w = st.size_in_bits() as u32;
    let pow2 = rng.chance(7, 10);
    let (scale, k) = if pow2 {
        let k = 1 + rng.below((w - 2) as u64) as u32;
        (1u128 << k, k)
    } else {
        let s = match rng.below(4) {
            0 => *rng.pick(&[3u128, 5, 6, 7, 10, 100, 1000]),
            1 => 3 + (rng.next_u128() % 61),
            _ => {
                let b = 2 + rng.below((w - 3).max(1) as u64) as u32;
                ((1u128 << b) | (rng.next_u128() & ((1u128 << b) - 1))) | 1
            }
        };
        let mut s = s.min(st_mask(st) >> 2).max(3);
        if s.is_power_of_two() {
            s -= 1; // keep it a genuine non-power-of-two divisor (>= 3)
        }
        (s, 0)
    };
    debug_assert!(pow2 == scale.is_power_of_two());
    let shape = crate::gen::pick_shape(8, rng);
    let t = crate::gen::mk_type(&shape, st);
    let n: usize = shape.iter().product::<u64>() as usize;
    let product = rng.chance(3, 10);
    let mut steps = vec![Step { op: Operation::Input(t.clone()), deps: vec![], gdeps: vec![] }];
    let mut inputs = vec![];
    let gen_vals = |rng: &mut Rng, small_bits: Option<u32>| -> Vec<u128> {
        (0..n.max(1))
            .map(|_| match small_bits {
                Some(b) => {
                    let x = (rng.next_u64() as i128) % (1i128 << b.min(62));
                    let x = if st.is_signed() && rng.chance(1, 2) { -x } else { x };
                    (x as u128) & st_mask(st)
                }
                None => {
                    if pow2 {
                        trunc_boundary_value(st, k, rng)
                    } else if rng.chance(1, 2) {
                        // small magnitudes: the exactness claim
                        let x = (rng.next_u64() as i128) % (1i128 << 15);
                        ((if rng.chance(1, 2) { -x } else { x }) as u128) & st_mask(st)
                    } else {
                        trunc_boundary_value(st, 1, rng)
                    }
                }
            })
            .collect()
    };
    let out;
    if product {
        steps.push(Step { op: Operation::Input(t.clone()), deps: vec![], gdeps: vec![] });
        steps.push(Step { op: Operation::Multiply, deps: vec![0, 1], gdeps: vec![] });
        steps.push(Step { op: Operation::Truncate(scale), deps: vec![2], gdeps: vec![] });
        out = 3;
        let half = ((w - 2) / 2).max(1).min(30);
        inputs.push(enc(&gen_vals(rng, Some(half)), st));
        inputs.push(enc(&gen_vals(rng, Some((w - 2 - half).max(1).min(30).saturating_sub(1).max(1))), st));
    } else {
        steps.push(Step { op: Operation::Truncate(scale), deps: vec![0], gdeps: vec![] });
        out = 1;
        inputs.push(enc(&gen_vals(rng, None), st));
    }
    let prog = Prog { graphs: vec![GraphD { steps, output: out, ..Default::default() }] };
    let owners = if rng.chance(1, 12) { vec![Owner::Public; inputs.len()] } else { gen_owners(inputs.len(), rng) };
    Case { prog, owners, outputs: gen_outputs(rng), inline: gen_inline(rng), inputs }
}

// ---------------------------------------------------------------------------------------------
// Compositions: table operations followed by arithmetic on their columns (C01/C02 workloads)
// ---------------------------------------------------------------------------------------------

pub fn composed_table_case(rng: &mut Rng) -> Option<Case> {
    match rng.below(8) {
        0 => {
            // join, then arithmetic on a payload / key column of the result
            let (mut case, jc) = join_case(rng, 3);
            let cols: Vec<&ColSpec> = jc.t0.cols.iter().filter(|c| c.st != BIT).collect();
            if cols.is_empty() || jc.masked {
                return Some(case);
            }
            let c = (*rng.pick(&cols)).clone();
            let g = case.prog.main_mut();
            g.steps.push(Step { op: Operation::NamedTupleGet(c.name.clone()), deps: vec![2], gdeps: vec![] });
            g.steps.push(Step { op: if rng.chance(1, 2) { Operation::Add } else { Operation::Multiply }, deps: vec![3, 3], gdeps: vec![] });
            g.steps.push(Step { op: Operation::Sum(vec![0]), deps: vec![4], gdeps: vec![] });
            g.output = if rng.chance(1, 2) { 5 } else { 4 };
            Some(case)
        }
        1..=4 => {
            // sort, then arithmetic on a column
            let (mut case, sc) = sort_case(rng);
            let cols: Vec<&ColSpec> = sc.cols.iter().filter(|c| c.name != sc.key_name && c.st != BIT).collect();
            if cols.is_empty() {
                return Some(case);
            }
            let c = (*rng.pick(&cols)).clone();
            let g = case.prog.main_mut();
            g.steps.push(Step { op: Operation::NamedTupleGet(c.name.clone()), deps: vec![1], gdeps: vec![] });
            g.steps.push(Step { op: Operation::CumSum(0), deps: vec![2], gdeps: vec![] });
            g.steps.push(Step { op: Operation::Multiply, deps: vec![3, 2], gdeps: vec![] });
            g.output = 2 + rng.usize_below(3);
            Some(case)
        }
        _ => {
            // permutation with a public permutation inside arithmetic
            let (mut case, pc) = perm_case(rng);
            case.owners[1] = Owner::Public;
            if pc.col.st == BIT {
                return Some(case);
            }
            let last = case.prog.main().steps.len() - 1;
            let g = case.prog.main_mut();
            g.steps.push(Step { op: Operation::Multiply, deps: vec![last, 0], gdeps: vec![] });
            g.steps.push(Step { op: Operation::Add, deps: vec![last + 1, last], gdeps: vec![] });
            g.output = last + 1 + rng.usize_below(2);
            Some(case)
        }
    }
}

//! One integer decides everything: SplitMix64 streams derived by hashing labels into the seed.
//! Logging never touches these generators.

#[derive(Clone, Debug)]
pub struct Rng {
    s: u64,
}

pub fn mix64(mut z: u64) -> u64 {
    z = z.wrapping_add(0x9E3779B97F4A7C15);
    z = (z ^ (z >> 30)).wrapping_mul(0xBF58476D1CE4E5B9);
    z = (z ^ (z >> 27)).wrapping_mul(0x94D049BB133111EB);
    z ^ (z >> 31)
}

pub fn hash_str(s: &str) -> u64 {
    // FNV-1a, then mixed
    let mut h: u64 = 0xcbf29ce484222325;
    for b in s.as_bytes() {
        h ^= *b as u64;
        h = h.wrapping_mul(0x100000001b3);
    }
    mix64(h)
}

pub fn hash_bytes(bs: &[u8]) -> u64 {
    let mut h: u64 = 0xcbf29ce484222325;
    for b in bs {
        h ^= *b as u64;
        h = h.wrapping_mul(0x100000001b3);
    }
    mix64(h)
}

pub fn combine(a: u64, b: u64) -> u64 {
    mix64(a ^ mix64(b).rotate_left(17) ^ 0xA5A5_5A5A_1234_5678)
}

impl Rng {
    pub fn new(seed: u64) -> Rng {
        Rng { s: mix64(seed ^ 0x5151_5151_AAAA_0001) }
    }
    /// Independent sub-stream identified by a label (does not advance self).
    pub fn derive(seed: u64, label: &str, idx: u64) -> Rng {
        Rng::new(combine(combine(seed, hash_str(label)), idx))
    }
    pub fn fork(&mut self, label: &str) -> Rng {
        let x = self.next_u64();
        Rng::new(combine(x, hash_str(label)))
    }
    pub fn next_u64(&mut self) -> u64 {
        self.s = self.s.wrapping_add(0x9E3779B97F4A7C15);
        let mut z = self.s;
        z = (z ^ (z >> 30)).wrapping_mul(0xBF58476D1CE4E5B9);
        z = (z ^ (z >> 27)).wrapping_mul(0x94D049BB133111EB);
        z ^ (z >> 31)
    }
    pub fn next_u128(&mut self) -> u128 {
        ((self.next_u64() as u128) << 64) | self.next_u64() as u128
    }
    /// Uniform in 0..n (n > 0), rejection sampling.
    pub fn below(&mut self, n: u64) -> u64 {
        assert!(n > 0);
        if n == 1 {
            return 0;
        }
        let zone = u64::MAX - (u64::MAX % n + 1) % n;
        loop {
            let x = self.next_u64();
            if x <= zone {
                return x % n;
            }
        }
    }
    pub fn usize_below(&mut self, n: usize) -> usize {
        self.below(n as u64) as usize
    }
    pub fn range(&mut self, lo: u64, hi_incl: u64) -> u64 {
        lo + self.below(hi_incl - lo + 1)
    }
    pub fn chance(&mut self, num: u64, den: u64) -> bool {
        self.below(den) < num
    }
    pub fn pick<'a, T>(&mut self, xs: &'a [T]) -> &'a T {
        &xs[self.usize_below(xs.len())]
    }
    pub fn weighted(&mut self, ws: &[u64]) -> usize {
        let tot: u64 = ws.iter().sum();
        assert!(tot > 0);
        let mut x = self.below(tot);
        for (i, w) in ws.iter().enumerate() {
            if x < *w {
                return i;
            }
            x -= *w;
        }
        ws.len() - 1
    }
    pub fn shuffle<T>(&mut self, xs: &mut [T]) {
        for i in (1..xs.len()).rev() {
            let j = self.usize_below(i + 1);
            xs.swap(i, j);
        }
    }
    pub fn seed16(&mut self) -> [u8; 16] {
        let mut out = [0u8; 16];
        out[..8].copy_from_slice(&self.next_u64().to_le_bytes());
        out[8..].copy_from_slice(&self.next_u64().to_le_bytes());
        out
    }
    pub fn bytes(&mut self, n: usize) -> Vec<u8> {
        let mut v = Vec::with_capacity(n);
        while v.len() < n {
            let x = self.next_u64().to_le_bytes();
            for b in x {
                if v.len() < n {
                    v.push(b);
                }
            }
        }
        v
    }
}

/// A source of scheduling decisions. Recording makes a run replayable from the explicit list;
/// replaying past the end of the list yields 0 (the "simplest" choice), which is what lets the
/// minimiser truncate and zero schedules.
pub enum Chooser {
    Record { rng: Rng, log: Vec<u32> },
    Replay { list: Vec<u32>, pos: usize, log: Vec<u32> },
}

impl Chooser {
    pub fn record(rng: Rng) -> Chooser {
        Chooser::Record { rng, log: vec![] }
    }
    pub fn replay(list: Vec<u32>) -> Chooser {
        Chooser::Replay { list, pos: 0, log: vec![] }
    }
    pub fn choose(&mut self, n: usize) -> usize {
        assert!(n > 0);
        match self {
            Chooser::Record { rng, log } => {
                let c = if n == 1 { 0 } else { rng.usize_below(n) };
                log.push(c as u32);
                c
            }
            Chooser::Replay { list, pos, log } => {
                let c = if *pos < list.len() { (list[*pos] as usize) % n } else { 0 };
                *pos += 1;
                log.push(c as u32);
                c
            }
        }
    }
    pub fn chance(&mut self, num: usize, den: usize) -> bool {
        self.choose(den) >= den - num
    }
    pub fn log(&self) -> &Vec<u32> {
        match self {
            Chooser::Record { log, .. } => log,
            Chooser::Replay { log, .. } => log,
        }
    }
}

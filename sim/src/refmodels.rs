//! Small executable reference models (stable sort, permutation, relational joins) derived from a
//! Case (program + input values), so that replay files need nothing else. Written from the
//! documentation of `Graph::join`, `Graph::join_with_column_masks`, `Graph::sort`,
//! `SortByIntegerKey` and `Graph::apply_permutation`, not from the evaluator.

use crate::exec::{Case, Violation};
use crate::harness::Stats;
use crate::vals::{as_vec, dec, enc, to_signed, typed_eq};
use ciphercore_base::data_types::{array_type, named_tuple_type, tuple_type, ScalarType, Type, BIT};
use ciphercore_base::data_values::Value;
use ciphercore_base::graphs::{JoinType, Operation};
use ciphercore_base::type_inference::NULL_HEADER;

#[derive(Clone, Debug)]
struct Col {
    name: String,
    st: ScalarType,
    row_shape: Vec<u64>,
    mask: Vec<u8>,
    data: Vec<u128>,
}

impl Col {
    fn re(&self) -> usize {
        self.row_shape.iter().product::<u64>() as usize
    }
    fn row(&self, i: usize) -> &[u128] {
        &self.data[i * self.re()..(i + 1) * self.re()]
    }
}

#[derive(Clone, Debug)]
enum Field {
    Null(Vec<u8>),
    Col(Col),
}

#[derive(Clone, Debug)]
struct Tbl {
    n: usize,
    masked: bool,
    fields: Vec<Field>,
}

impl Tbl {
    fn null(&self) -> Option<&Vec<u8>> {
        self.fields.iter().find_map(|f| if let Field::Null(v) = f { Some(v) } else { None })
    }
    fn col(&self, name: &str) -> Option<&Col> {
        self.fields.iter().find_map(|f| match f {
            Field::Col(c) if c.name == name => Some(c),
            _ => None,
        })
    }
    fn cols(&self) -> Vec<&Col> {
        self.fields.iter().filter_map(|f| if let Field::Col(c) = f { Some(c) } else { None }).collect()
    }
    fn ty(&self) -> Type {
        named_tuple_type(
            self.fields
                .iter()
                .map(|f| match f {
                    Field::Null(_) => (NULL_HEADER.to_string(), array_type(vec![self.n as u64], BIT)),
                    Field::Col(c) => {
                        let mut s = vec![self.n as u64];
                        s.extend(c.row_shape.iter());
                        let dt = array_type(s, c.st);
                        (c.name.clone(), if self.masked { tuple_type(vec![array_type(vec![self.n as u64], BIT), dt]) } else { dt })
                    }
                })
                .collect(),
        )
    }
    fn value(&self) -> Value {
        Value::from_vector(
            self.fields
                .iter()
                .map(|f| match f {
                    Field::Null(v) => enc(&v.iter().map(|x| *x as u128).collect::<Vec<_>>(), BIT),
                    Field::Col(c) => {
                        let dv = enc(&c.data, c.st);
                        if self.masked {
                            Value::from_vector(vec![enc(&c.mask.iter().map(|x| *x as u128).collect::<Vec<_>>(), BIT), dv])
                        } else {
                            dv
                        }
                    }
                })
                .collect(),
        )
    }
}

fn decode_table(t: &Type, v: &Value, masked: bool) -> Option<Tbl> {
    let nts = if let Type::NamedTuple(n) = t { n } else { return None };
    let vs = as_vec(v)?;
    if vs.len() != nts.len() {
        return None;
    }
    let mut fields = vec![];
    let mut n = None;
    for ((name, ft), fv) in nts.iter().zip(vs.iter()) {
        if name == NULL_HEADER {
            let d = dec(fv, ft);
            n = Some(d.len());
            fields.push(Field::Null(d.iter().map(|x| *x as u8).collect()));
        } else {
            let (mt, dt, mv, dv) = if masked {
                let ts = if let Type::Tuple(ts) = &**ft { ts.clone() } else { return None };
                let pv = as_vec(fv)?;
                (Some((*ts[0]).clone()), (*ts[1]).clone(), Some(pv[0].clone()), pv[1].clone())
            } else {
                (None, (**ft).clone(), None, fv.clone())
            };
            let shape = dt.get_shape();
            let rows = shape[0] as usize;
            let mask: Vec<u8> = match (mt, mv) {
                (Some(mt), Some(mv)) => dec(&mv, &mt).iter().map(|x| *x as u8).collect(),
                _ => vec![1; rows],
            };
            fields.push(Field::Col(Col { name: name.clone(), st: dt.get_scalar_type(), row_shape: shape[1..].to_vec(), mask, data: dec(&dv, &dt) }));
            if n.is_none() {
                n = Some(rows);
            }
        }
    }
    Some(Tbl { n: n?, masked, fields })
}

struct RowBuilder {
    out: Tbl,
}

impl RowBuilder {
    fn new(n: usize, masked: bool, layout: &[(String, Option<(ScalarType, Vec<u64>)>)]) -> RowBuilder {
        let fields = layout
            .iter()
            .map(|(name, spec)| match spec {
                None => Field::Null(vec![]),
                Some((st, rs)) => Field::Col(Col { name: name.clone(), st: *st, row_shape: rs.clone(), mask: vec![], data: vec![] }),
            })
            .collect();
        RowBuilder { out: Tbl { n, masked, fields } }
    }
    /// entries: per column name, Some((mask, data)) or None (= zero entry)
    fn push_row(&mut self, null: u8, entries: &dyn Fn(&str) -> Option<(u8, Vec<u128>)>) {
        for f in self.out.fields.iter_mut() {
            match f {
                Field::Null(v) => v.push(null),
                Field::Col(c) => {
                    let re = c.row_shape.iter().product::<u64>() as usize;
                    match if null == 1 { entries(&c.name) } else { None } {
                        Some((m, d)) if m == 1 => {
                            c.mask.push(1);
                            c.data.extend(d);
                        }
                        _ => {
                            c.mask.push(0);
                            c.data.extend(vec![0u128; re]);
                        }
                    }
                }
            }
        }
    }
}

fn join_model(x: &Tbl, y: &Tbl, jt: JoinType, keys: &[(String, String)], masked: bool) -> Result<Tbl, String> {
    let nx = x.n;
    let ny = y.n;
    let null_x = x.null().ok_or("no null column in the first table")?;
    let null_y = y.null().ok_or("no null column in the second table")?;
    let kx: Vec<&Col> = keys.iter().map(|(a, _)| x.col(a).ok_or("missing key column")).collect::<Result<_, _>>()?;
    let ky: Vec<&Col> = keys.iter().map(|(_, b)| y.col(b).ok_or("missing key column")).collect::<Result<_, _>>()?;
    let keyed = |null: &Vec<u8>, kc: &Vec<&Col>, i: usize| null[i] == 1 && kc.iter().all(|c| c.mask[i] == 1);
    let key_of = |kc: &Vec<&Col>, i: usize| -> Vec<u128> { kc.iter().flat_map(|c| c.row(i).to_vec()).collect() };
    // match of row i of X in Y and of row j of Y in X
    let match_x: Vec<Option<usize>> = (0..nx)
        .map(|i| if keyed(null_x, &kx, i) { (0..ny).rev().find(|j| keyed(null_y, &ky, *j) && key_of(&ky, *j) == key_of(&kx, i)) } else { None })
        .collect();
    let match_y: Vec<Option<usize>> = (0..ny)
        .map(|j| if keyed(null_y, &ky, j) { (0..nx).rev().find(|i| keyed(null_x, &kx, *i) && key_of(&kx, *i) == key_of(&ky, j)) } else { None })
        .collect();
    // result layout: fields of X in order, then non-key fields of Y whose names do not occur in X
    let key_names_y: Vec<&String> = keys.iter().map(|(_, b)| b).collect();
    let mut layout: Vec<(String, Option<(ScalarType, Vec<u64>)>)> = vec![];
    for f in &x.fields {
        match f {
            Field::Null(_) => layout.push((NULL_HEADER.to_string(), None)),
            Field::Col(c) => layout.push((c.name.clone(), Some((c.st, c.row_shape.clone())))),
        }
    }
    for c in y.cols() {
        if x.col(&c.name).is_none() && !key_names_y.contains(&&c.name) {
            layout.push((c.name.clone(), Some((c.st, c.row_shape.clone()))));
        }
    }
    let y_nonkey: Vec<&Col> = y.cols().into_iter().filter(|c| !key_names_y.contains(&&c.name)).collect();
    let n_out = match jt {
        JoinType::Inner | JoinType::Left => nx,
        _ => nx + ny,
    };
    let mut rb = RowBuilder::new(n_out, masked, &layout);
    let x_entry = |name: &str, i: usize| x.col(name).map(|c| (c.mask[i], c.row(i).to_vec()));
    let y_entry = |name: &str, j: usize| y_nonkey.iter().find(|c| c.name == name).map(|c| (c.mask[j], c.row(j).to_vec()));
    match jt {
        JoinType::Inner => {
            for i in 0..nx {
                match match_x[i] {
                    Some(j) => rb.push_row(1, &|name| x_entry(name, i).or_else(|| y_entry(name, j))),
                    None => rb.push_row(0, &|_| None),
                }
            }
        }
        JoinType::Left => {
            for i in 0..nx {
                if null_x[i] == 0 {
                    rb.push_row(0, &|_| None);
                } else {
                    let m = match_x[i];
                    rb.push_row(1, &|name| x_entry(name, i).or_else(|| m.and_then(|j| y_entry(name, j))));
                }
            }
        }
        JoinType::Union | JoinType::Full => {
            for i in 0..nx {
                if null_x[i] == 0 || match_x[i].is_some() {
                    rb.push_row(0, &|_| None);
                } else {
                    rb.push_row(1, &|name| x_entry(name, i));
                }
            }
            for j in 0..ny {
                if null_y[j] == 0 {
                    rb.push_row(0, &|_| None);
                    continue;
                }
                let m = if jt == JoinType::Full { match_y[j] } else { None };
                rb.push_row(1, &|name| {
                    // key columns of X take the key data of Y
                    if let Some(pos) = keys.iter().position(|(a, _)| a == name) {
                        let c = ky[pos];
                        return Some((c.mask[j], c.row(j).to_vec()));
                    }
                    if let Some(e) = y_entry(name, j) {
                        return Some(e);
                    }
                    // non-key column of X: only a full join fills it, from the merged row
                    m.and_then(|i| x_entry(name, i))
                });
            }
        }
    }
    Ok(rb.out)
}

fn sort_model(t: &Tbl, key: &str, integer: bool) -> Result<Tbl, String> {
    let kc = t.col(key).ok_or("missing key column")?;
    let mut idx: Vec<usize> = (0..t.n).collect();
    if integer {
        let st = kc.st;
        if st.is_signed() {
            idx.sort_by_key(|i| to_signed(kc.row(*i)[0], st));
        } else {
            idx.sort_by_key(|i| kc.row(*i)[0]);
        }
    } else {
        idx.sort_by(|a, b| kc.row(*a).cmp(kc.row(*b)));
    }
    let mut out = t.clone();
    for f in out.fields.iter_mut() {
        if let Field::Col(c) = f {
            let re = c.re();
            let mut d = Vec::with_capacity(c.data.len());
            for i in &idx {
                d.extend_from_slice(&c.data[i * re..(i + 1) * re]);
            }
            c.data = d;
        }
    }
    Ok(out)
}

/// A sort table has no null column: decode as plain named tuple of arrays.
fn decode_plain(t: &Type, v: &Value) -> Option<Tbl> {
    let nts = if let Type::NamedTuple(n) = t { n } else { return None };
    let vs = as_vec(v)?;
    let mut fields = vec![];
    let mut n = 0;
    for ((name, ft), fv) in nts.iter().zip(vs.iter()) {
        let shape = ft.get_shape();
        n = shape[0] as usize;
        fields.push(Field::Col(Col { name: name.clone(), st: ft.get_scalar_type(), row_shape: shape[1..].to_vec(), mask: vec![1; n], data: dec(fv, ft) }));
    }
    Some(Tbl { n, masked: false, fields })
}

enum Model {
    Join { jt: JoinType, keys: Vec<(String, String)>, masked: bool },
    Sort { key: String, integer: bool },
    Perm { round_trip: bool, inverse: bool },
}

fn classify(case: &Case) -> Option<Model> {
    if case.prog.graphs.len() != 1 {
        return None;
    }
    let m = case.prog.main();
    let out = &m.steps[m.output];
    let is_input = |i: usize| matches!(m.steps[i].op, Operation::Input(_));
    match &out.op {
        Operation::Join(jt, h) | Operation::JoinWithColumnMasks(jt, h) if out.deps == vec![0, 1] && is_input(0) && is_input(1) => {
            let mut keys: Vec<(String, String)> = h.iter().map(|(a, b)| (a.clone(), b.clone())).collect();
            keys.sort();
            Some(Model::Join { jt: *jt, keys, masked: matches!(out.op, Operation::JoinWithColumnMasks(_, _)) })
        }
        Operation::Sort(key) if out.deps == vec![0] && is_input(0) => Some(Model::Sort { key: key.clone(), integer: false }),
        Operation::Custom(c) if out.deps == vec![0] && is_input(0) && (c.get_name().starts_with("SortByIntegerKey") || c.get_name().starts_with("SortIntegers")) => {
            // the key is the only parameter; recover it from the serialised operation
            let j = serde_json::to_value(c).ok()?;
            let key = find_key(&j)?;
            Some(Model::Sort { key, integer: true })
        }
        Operation::ApplyPermutation(inv) => {
            if m.steps.len() == 3 && out.deps == vec![0, 1] {
                Some(Model::Perm { round_trip: false, inverse: *inv })
            } else if m.steps.len() == 4 && out.deps == vec![2, 1] {
                if let Operation::ApplyPermutation(inv0) = &m.steps[2].op {
                    if m.steps[2].deps == vec![0, 1] && *inv0 != *inv {
                        return Some(Model::Perm { round_trip: true, inverse: *inv });
                    }
                }
                None
            } else {
                None
            }
        }
        _ => None,
    }
}

fn find_key(j: &serde_json::Value) -> Option<String> {
    match j {
        serde_json::Value::Object(m) => {
            if let Some(serde_json::Value::String(s)) = m.get("key") {
                return Some(s.clone());
            }
            m.values().find_map(find_key)
        }
        serde_json::Value::Array(a) => a.iter().find_map(find_key),
        _ => None,
    }
}

pub fn has_model(case: &Case) -> bool {
    classify(case).is_some()
}

/// Compare the plaintext result of the source program with the reference model.
pub fn model_check(case: &Case, out_type: &Type, reference: &Value, stats: &mut Stats) -> Option<Violation> {
    let its = case.prog.input_types();
    let model = classify(case)?;
    let expected: Result<(Type, Value), String> = (|| match &model {
        Model::Join { jt, keys, masked } => {
            let x = decode_table(&its[0], &case.inputs[0], *masked).ok_or("cannot decode first table")?;
            let y = decode_table(&its[1], &case.inputs[1], *masked).ok_or("cannot decode second table")?;
            let r = join_model(&x, &y, *jt, keys, *masked)?;
            stats.probe(&format!("model:join:{:?}{}", jt, if *masked { ":masked" } else { "" }), 1);
            Ok((r.ty(), r.value()))
        }
        Model::Sort { key, integer } => {
            let t = decode_plain(&its[0], &case.inputs[0]).ok_or("cannot decode table")?;
            let r = sort_model(&t, key, *integer)?;
            stats.probe(if *integer { "model:sort:integer-key" } else { "model:sort:bit-key" }, 1);
            Ok((its[0].clone(), r.value()))
        }
        Model::Perm { round_trip, inverse } => {
            let t = &its[0];
            let a = dec(&case.inputs[0], t);
            let p: Vec<usize> = dec(&case.inputs[1], &its[1]).iter().map(|x| *x as usize).collect();
            let n = p.len();
            let re = if n == 0 { 0 } else { a.len() / n };
            let out = if *round_trip {
                stats.probe("model:perm:round-trip", 1);
                a.clone()
            } else {
                stats.probe("model:perm:single", 1);
                let mut o = vec![0u128; a.len()];
                for i in 0..n {
                    // plain: out[i] = a[p[i]]; inverse: out[p[i]] = a[i]
                    let (dst, src) = if *inverse { (p[i], i) } else { (i, p[i]) };
                    o[dst * re..(dst + 1) * re].copy_from_slice(&a[src * re..(src + 1) * re]);
                }
                o
            };
            Ok((t.clone(), enc(&out, t.get_scalar_type())))
        }
    })();
    match expected {
        Err(e) => Some(Violation { class: "harness".into(), detail: format!("reference model could not be evaluated: {}", e) }),
        Ok((et, ev)) => {
            if &et != out_type {
                return Some(Violation {
                    class: "model-type-mismatch".into(),
                    detail: format!("result type {} differs from the documented layout {}", crate::dsl::type_str(out_type), crate::dsl::type_str(&et)),
                });
            }
            if !typed_eq(out_type, &ev, reference) {
                return Some(Violation {
                    class: "model-mismatch".into(),
                    detail: format!(
                        "plaintext result differs from the reference model: got {} expected {}",
                        crate::vals::render(out_type, reference),
                        crate::vals::render(out_type, &ev)
                    ),
                });
            }
            None
        }
    }
}

//! Case = (program, inputs, owners, outputs, inline mode). Compilation through the real pipeline,
//! reference evaluation of the source graph, per-party input provisioning and output oracles.

use crate::dsl::{es, Prog};
use crate::rng::Rng;
use crate::trisim::{guarded, GraphView, RunResult, Status, PV};
use crate::vals::{add_values, children_types, const_value, is_leaf_type, random_value};
use ciphercore_base::custom_ops::run_instantiation_pass;
use ciphercore_base::data_types::{tuple_type, Type};
use ciphercore_base::data_values::Value;
use ciphercore_base::evaluators::simple_evaluator::SimpleEvaluator;
use ciphercore_base::evaluators::Evaluator;
use ciphercore_base::graphs::Context;
use ciphercore_base::inline::inline_ops::{DepthOptimizationLevel, InlineConfig, InlineMode};
use ciphercore_base::mpc::mpc_compiler::{compile_context, IOStatus};
use ciphercore_base::random::PRNG;
use ciphercore_base::typed_value::TypedValue;
use serde::{Deserialize, Serialize};

#[derive(Clone, Copy, Debug, Serialize, Deserialize, PartialEq, Eq, Hash)]
pub enum Owner {
    Party(u8),
    Public,
    Shared,
}

impl Owner {
    pub fn to_io(self) -> IOStatus {
        match self {
            Owner::Party(p) => IOStatus::Party(p as u64),
            Owner::Public => IOStatus::Public,
            Owner::Shared => IOStatus::Shared,
        }
    }
}

#[derive(Clone, Copy, Debug, Serialize, Deserialize, PartialEq, Eq, Hash)]
pub enum Inline {
    Simple,
    DepthDefault,
    DepthExtreme,
}

impl Inline {
    pub fn config(self) -> InlineConfig {
        InlineConfig {
            default_mode: match self {
                Inline::Simple => InlineMode::Simple,
                Inline::DepthDefault => InlineMode::DepthOptimized(DepthOptimizationLevel::Default),
                Inline::DepthExtreme => InlineMode::DepthOptimized(DepthOptimizationLevel::Extreme),
            },
            ..Default::default()
        }
    }
}

#[derive(Clone, Debug, Serialize, Deserialize)]
pub struct Case {
    pub prog: Prog,
    pub owners: Vec<Owner>,
    /// output parties (subset of 0..3, in the order given to the compiler); empty = keep shared
    pub outputs: Vec<u8>,
    pub inline: Inline,
    pub inputs: Vec<Value>,
}

#[derive(Clone, Copy, Debug, Serialize, Deserialize, PartialEq, Eq, Hash)]
pub enum JunkKind {
    /// control: the true value (no fault)
    True,
    Zeros,
    Ones,
    Random,
    /// an explicit "this party does not have this" marker that propagates (strictest)
    Poison,
}

#[derive(Clone, Debug, Serialize, Deserialize)]
pub struct JunkPlan {
    pub kind: [JunkKind; 3],
    pub seed: u64,
}

impl JunkPlan {
    pub fn uniform(k: JunkKind, seed: u64) -> JunkPlan {
        JunkPlan { kind: [k, k, k], seed }
    }
    pub fn fired(&self) -> bool {
        self.kind.iter().any(|k| *k != JunkKind::True)
    }
}

pub enum CompileOutcome {
    Ok(Compiled),
    /// compiler returned Err: outside the property ("every graph the compiler accepts")
    Rejected(String),
    Panic(String),
}

/// How the final result is compared with the reference.
pub enum Oracle {
    /// typed equality with the plaintext result of the source graph
    Exact,
    /// the output step is Truncate(scale): documented error bound relative to the exact pre-truncation value
    Trunc { pre: Value, scale: u128, all_public: bool, wraps: std::cell::Cell<u64>, plus_one: std::cell::Cell<u64>, exact: std::cell::Cell<u64> },
}

impl Oracle {
    pub fn accept(&self, t: &Type, got: &Value, reference: &Value) -> bool {
        match self {
            Oracle::Exact => crate::vals::typed_eq(t, got, reference),
            Oracle::Trunc { pre, scale, all_public, wraps, plus_one, exact } => {
                if *all_public {
                    // truncation of public values is exact: the plaintext evaluator's result, which must itself be the
                    // integer quotient pre / scale (rounded toward zero for negative values, as for every signed type)
                    // computed here in harness arithmetic - the evaluator is not its own reference
                    if is_leaf_type(t) && crate::vals::as_bytes(got).is_some() {
                        let st = t.get_scalar_type();
                        let mask = crate::vals::st_mask(st);
                        let g = crate::vals::dec(got, t);
                        let p = crate::vals::dec(pre, t);
                        if g.len() == p.len() && st != ciphercore_base::data_types::BIT {
                            for i in 0..g.len() {
                                let q: u128 = if st.is_signed() {
                                    let x = crate::vals::to_signed(p[i], st);
                                    if *scale > i128::MAX as u128 {
                                        0
                                    } else {
                                        (x / (*scale as i128)) as u128 & mask
                                    }
                                } else {
                                    (p[i] & mask) / *scale
                                };
                                if g[i] & mask != q {
                                    return false;
                                }
                            }
                        }
                    }
                    return crate::vals::typed_eq(t, got, reference);
                }
                if !is_leaf_type(t) {
                    return false;
                }
                let st = t.get_scalar_type();
                let w = crate::vals::st_bits(st);
                let mask = crate::vals::st_mask(st);
                let need = crate::vals::num_elems(t);
                let g = crate::vals::dec(got, t);
                let p = crate::vals::dec(pre, t);
                let r = crate::vals::dec(reference, t);
                if crate::vals::as_bytes(got).is_none() || g.len() != need || p.len() != need {
                    return false;
                }
                for i in 0..need {
                    if scale.is_power_of_two() {
                        let k = scale.trailing_zeros();
                        // floor quotient (arithmetic shift for signed)
                        let fl: u128 = if st.is_signed() {
                            let x = crate::vals::to_signed(p[i], st);
                            ((x >> k) as u128) & mask
                        } else {
                            (p[i] & mask) >> k
                        };
                        let d = g[i].wrapping_sub(fl) & mask;
                        if d == 0 {
                            exact.set(exact.get() + 1);
                        } else if d == 1 {
                            plus_one.set(plus_one.get() + 1);
                        } else {
                            return false;
                        }
                    } else {
                        // general divisor, signed: plaintext quotient up to one unit, or the documented wrap-around
                        // class error = +-M/scale (+-1) where M = 2^w
                        let d = crate::vals::to_signed(g[i].wrapping_sub(r[i]) & mask, st);
                        if d.abs() <= 1 {
                            exact.set(exact.get() + 1);
                            continue;
                        }
                        let x = crate::vals::to_signed(p[i], st);
                        let small_input = w >= 64 && x.unsigned_abs() < (1u128 << 16);
                        if small_input {
                            return false;
                        }
                        // M/scale as a real number; accept |d -+ M/scale| <= 2 (mod M)
                        let m_over = if w >= 128 { (u128::MAX / scale) as i128 } else { ((1u128 << w) / scale) as i128 };
                        let near = |a: i128, b: i128| {
                            let diff = (a.wrapping_sub(b)) as u128 & mask;
                            let sd = crate::vals::to_signed(diff, st);
                            sd.abs() <= 2
                        };
                        if near(d, m_over) || near(d, -m_over) {
                            wraps.set(wraps.get() + 1);
                        } else {
                            return false;
                        }
                    }
                }
                true
            }
        }
    }
}

pub struct Compiled {
    pub oracle: Oracle,
    pub src: Context,
    pub src_instantiated: Context,
    pub compiled: Context,
    pub gv: GraphView,
    pub input_types: Vec<Type>,
    pub out_type: Type,
    pub compile_ms: u128,
}

pub fn det_evaluator(seed: u64) -> SimpleEvaluator {
    SimpleEvaluator::new(Some(crate::vals::seed_from_u64(seed))).expect("evaluator")
}

pub fn compile_case(case: &Case) -> CompileOutcome {
    let t0 = std::time::Instant::now();
    let built = match case.prog.build() {
        Ok(b) => b,
        Err(e) => return CompileOutcome::Rejected(format!("builder: {}", e)),
    };
    let src = built.context.clone();
    let input_types = case.prog.input_types();
    if input_types.len() != case.owners.len() {
        return CompileOutcome::Rejected("owner vector length".into());
    }
    let out_type = match src.get_main_graph().and_then(|g| g.get_output_node()).and_then(|n| n.get_type()) {
        Ok(t) => t,
        Err(e) => return CompileOutcome::Rejected(es(e)),
    };
    let owners: Vec<IOStatus> = case.owners.iter().map(|o| o.to_io()).collect();
    let outs: Vec<IOStatus> = case.outputs.iter().map(|p| IOStatus::Party(*p as u64)).collect();
    let cfg = case.inline.config();
    let src2 = src.clone();
    let r = guarded(move || compile_context(src2, owners, outs, cfg, || SimpleEvaluator::new(Some([7u8; 16]))));
    let mapped = match r {
        Err(p) => return CompileOutcome::Panic(p),
        Ok(Err(e)) => return CompileOutcome::Rejected(es(e)),
        Ok(Ok(m)) => m,
    };
    let compiled = mapped.get_context();
    let main = match compiled.get_main_graph() {
        Ok(g) => g,
        Err(e) => return CompileOutcome::Rejected(es(e)),
    };
    let gv = match GraphView::new(&main) {
        Ok(g) => g,
        Err(e) => return CompileOutcome::Rejected(format!("graph view: {}", e)),
    };
    let src_instantiated = match guarded(|| run_instantiation_pass(src.clone())) {
        Err(p) => return CompileOutcome::Panic(p),
        Ok(Err(e)) => return CompileOutcome::Rejected(es(e)),
        Ok(Ok(m)) => m.get_context(),
    };
    let oracle = match build_oracle(case) {
        Ok(o) => o,
        Err(e) => return CompileOutcome::Rejected(format!("oracle: {}", e)),
    };
    CompileOutcome::Ok(Compiled {
        oracle,
        src,
        src_instantiated,
        compiled,
        gv,
        input_types,
        out_type,
        compile_ms: t0.elapsed().as_millis(),
    })
}

fn build_oracle(case: &Case) -> Result<Oracle, String> {
    use ciphercore_base::graphs::Operation as O;
    let m = case.prog.main();
    if let O::Truncate(scale) = m.steps[m.output].op {
        let dep = m.steps[m.output].deps[0];
        let mut p2 = case.prog.clone();
        p2.main_mut().output = dep;
        let built = p2.build()?;
        let inst = run_instantiation_pass(built.context).map_err(es)?.get_context();
        let ins = case.inputs.clone();
        let pre = guarded(move || {
            let mut ev = det_evaluator(1);
            ev.evaluate_context(inst, ins)
        })
        .map_err(|p| format!("panic: {}", p))?
        .map_err(es)?;
        let all_public = case.owners.iter().all(|o| *o == Owner::Public);
        return Ok(Oracle::Trunc {
            pre,
            scale,
            all_public,
            wraps: std::cell::Cell::new(0),
            plus_one: std::cell::Cell::new(0),
            exact: std::cell::Cell::new(0),
        });
    }
    Ok(Oracle::Exact)
}

/// Reference model: the source program itself, evaluated in plaintext.
pub fn reference(c: &Compiled, inputs: &[Value]) -> Result<Value, String> {
    let ctx = c.src_instantiated.clone();
    let ins = inputs.to_vec();
    match guarded(move || {
        let mut ev = det_evaluator(1);
        ev.evaluate_context(ctx, ins)
    }) {
        Err(p) => Err(format!("panic in reference evaluation: {}", p)),
        Ok(Err(e)) => Err(es(e)),
        Ok(Ok(v)) => Ok(v),
    }
}

fn junk_value(t: &Type, kind: JunkKind, truth: &Value, rng: &mut Rng) -> PV {
    match kind {
        JunkKind::True => PV::Leaf(truth.clone()),
        JunkKind::Zeros => PV::Leaf(const_value(t, 0)),
        JunkKind::Ones => PV::Leaf(const_value(t, u128::MAX)),
        JunkKind::Random => PV::Leaf(random_value(t, rng)),
        JunkKind::Poison => PV::Poison("junk: value this party does not hold".into()),
    }
}

/// Dealer + per-party provisioning. Returns inputs[k][p] for the compiled main graph, and the
/// dealer's shares for shared inputs (for reporting).
pub fn party_inputs(case: &Case, c: &Compiled, junk: &JunkPlan, dealer_seed: u64) -> Result<Vec<Vec<PV>>, String> {
    let mut out = vec![];
    let mut jr = Rng::new(junk.seed);
    let mut prng = PRNG::new(Some(crate::vals::seed_from_u64(dealer_seed))).map_err(es)?;
    for (k, t) in c.input_types.iter().enumerate() {
        let v = &case.inputs[k];
        let per_party: Vec<PV> = match case.owners[k] {
            Owner::Public => (0..3).map(|_| PV::Leaf(v.clone())).collect(),
            Owner::Party(o) => (0..3usize)
                .map(|p| if p == o as usize { PV::Leaf(v.clone()) } else { junk_value(t, junk.kind[p], v, &mut jr) })
                .collect(),
            Owner::Shared => {
                let tv = TypedValue::new(t.clone(), v.clone()).map_err(es)?;
                let sh = tv.secret_share(&mut prng).map_err(es)?;
                let shares = crate::vals::as_vec(&sh.value).ok_or("secret_share did not return a vector")?;
                (0..3usize)
                    .map(|p| {
                        let slots: Vec<PV> = (0..3usize)
                            .map(|s| {
                                if s == p || s == (p + 1) % 3 {
                                    PV::Leaf(shares[s].clone())
                                } else {
                                    junk_value(t, junk.kind[p], &shares[s], &mut jr)
                                }
                            })
                            .collect();
                        PV::Tup(slots)
                    })
                    .collect()
            }
        };
        out.push(per_party);
    }
    Ok(out)
}

/// Inputs for the repository's own single-evaluator run of the compiled graph.
pub fn global_inputs(case: &Case, c: &Compiled, dealer_seed: u64) -> Result<Vec<Value>, String> {
    let mut prng = PRNG::new(Some(crate::vals::seed_from_u64(dealer_seed))).map_err(es)?;
    let mut out = vec![];
    for (k, t) in c.input_types.iter().enumerate() {
        let v = &case.inputs[k];
        match case.owners[k] {
            Owner::Shared => {
                let tv = TypedValue::new(t.clone(), v.clone()).map_err(es)?;
                out.push(tv.secret_share(&mut prng).map_err(es)?.value);
            }
            _ => out.push(v.clone()),
        }
    }
    Ok(out)
}

pub fn shared_type(t: &Type) -> Type {
    tuple_type(vec![t.clone(), t.clone(), t.clone()])
}

#[derive(Clone, Debug, Serialize, Deserialize, PartialEq)]
pub struct Violation {
    /// violation class: stable identifier used by the minimiser ("same violation class persists")
    pub class: String,
    pub detail: String,
}

pub fn sum3(t: &Type, a: &Value, b: &Value, c: &Value) -> Value {
    add_values(t, &add_values(t, a, b), c)
}

/// C01 oracle for the repository's single-evaluator run.
pub fn check_global_output(case: &Case, c: &Compiled, out: &Value, reference: &Value) -> Option<Violation> {
    if case.outputs.is_empty() {
        let parts = match crate::vals::as_vec(out).ok_or(()) {
            Ok(p) if p.len() == 3 => p,
            _ => return Some(Violation { class: "shared-output-shape".into(), detail: "shared output is not a 3-tuple".into() }),
        };
        let ok = guarded(|| sum3(&c.out_type, &parts[0], &parts[1], &parts[2]));
        match ok {
            Ok(s) if c.oracle.accept(&c.out_type, &s, reference) => None,
            Ok(_) => Some(Violation { class: "shares-do-not-sum".into(), detail: "three output shares do not add up to the reference".into() }),
            Err(p) => Some(Violation { class: "shared-output-shape".into(), detail: format!("malformed share: {}", p) }),
        }
    } else if c.oracle.accept(&c.out_type, out, reference) {
        None
    } else {
        Some(Violation { class: "wrong-output".into(), detail: "compiled graph output differs from the source graph output".into() })
    }
}

/// C02 oracle over a finished three-party run.
pub fn check_party_outputs(case: &Case, c: &Compiled, run: &RunResult, reference: &Value) -> Option<Violation> {
    match &run.status {
        Status::Completed => {}
        Status::Stalled { detail } => return Some(Violation { class: "stalled".into(), detail: detail.clone() }),
        Status::Panic { party, node, msg } => {
            return Some(Violation { class: "panic".into(), detail: format!("party {} node {}: {}", party, node, msg) })
        }
        Status::Harness { detail } => return Some(Violation { class: "harness".into(), detail: detail.clone() }),
    }
    if run.out.len() == 1 {
        // one-party configuration
        return match run.out[0].to_value() {
            Some(v) => check_global_output(case, c, &v, reference),
            None => Some(Violation {
                class: "output-error".into(),
                detail: format!("evaluation error: {}", run.out[0].first_poison().unwrap()),
            }),
        };
    }
    if case.outputs.is_empty() {
        // slot k is held by parties k and k-1
        let mut slots: Vec<Value> = vec![];
        for k in 0..3usize {
            let a = run.out[k].child(k);
            let b = run.out[(k + 2) % 3].child(k);
            let (av, bv) = match (a.to_value(), b.to_value()) {
                (Some(x), Some(y)) => (x, y),
                _ => {
                    let cause = a.first_poison().or(b.first_poison()).unwrap();
                    return Some(Violation {
                        class: "shared-output-slot-undefined".into(),
                        detail: format!("share slot {} is not held by party {} or {}: {}", k, k, (k + 2) % 3, cause),
                    });
                }
            };
            if !crate::vals::typed_eq(&c.out_type, &av, &bv) {
                return Some(Violation {
                    class: "shared-output-inconsistent".into(),
                    detail: format!("share slot {} differs between its holders, parties {} and {}", k, k, (k + 2) % 3),
                });
            }
            slots.push(av);
        }
        match guarded(|| sum3(&c.out_type, &slots[0], &slots[1], &slots[2])) {
            Ok(s) if c.oracle.accept(&c.out_type, &s, reference) => None,
            Ok(_) => Some(Violation { class: "shares-do-not-sum".into(), detail: "the three agreed slots do not reconstruct the reference".into() }),
            Err(p) => Some(Violation { class: "shared-output-shape".into(), detail: p }),
        }
    } else {
        for p in &case.outputs {
            let pv = &run.out[*p as usize];
            match pv.to_value() {
                None => {
                    return Some(Violation {
                        class: "output-undefined".into(),
                        detail: format!("output party {} does not hold the output: {}", p, pv.first_poison().unwrap()),
                    })
                }
                Some(v) => {
                    if !c.oracle.accept(&c.out_type, &v, reference) {
                        return Some(Violation { class: "wrong-output".into(), detail: format!("output party {} holds a wrong result", p) });
                    }
                }
            }
        }
        None
    }
}

pub fn is_abort(v: &Violation) -> bool {
    v.detail.contains("Cuckoo hashing failed")
}

/// Non-trivial by the stated rule: at least one Send, at least one private input.
pub fn nontrivial(case: &Case, c: &Compiled) -> bool {
    c.gv.num_sends() > 0 && case.owners.iter().any(|o| *o != Owner::Public)
}

pub fn types_of_children(t: &Type) -> Vec<Type> {
    if is_leaf_type(t) {
        vec![]
    } else {
        children_types(t)
    }
}

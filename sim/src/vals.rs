//! Harness-side value helpers: independent little-endian encoding, random/junk values of a type,
//! type-recursive modular addition, and human-readable rendering for evidence/replay files.

use crate::rng::Rng;
use ciphercore_base::data_types::{ScalarType, Type, BIT};
use ciphercore_base::data_values::Value;

pub fn st_bits(st: ScalarType) -> u32 {
    st.size_in_bits() as u32
}

pub fn st_mask(st: ScalarType) -> u128 {
    let b = st_bits(st);
    if b >= 128 {
        u128::MAX
    } else {
        (1u128 << b) - 1
    }
}

pub fn num_elems(t: &Type) -> usize {
    match t {
        Type::Scalar(_) => 1,
        Type::Array(s, _) => s.iter().product::<u64>() as usize,
        _ => panic!("num_elems on non-array"),
    }
}

/// Encode integers (already reduced mod 2^w) as a Value of scalar/array type with scalar type st.
pub fn enc(vals: &[u128], st: ScalarType) -> Value {
    let mut bytes = vec![];
    if st == BIT {
        for ch in vals.chunks(8) {
            let mut b = 0u8;
            for (i, v) in ch.iter().enumerate() {
                b |= ((*v & 1) as u8) << i;
            }
            bytes.push(b);
        }
    } else {
        let bl = (st_bits(st) / 8) as usize;
        for v in vals {
            let le = (v & st_mask(st)).to_le_bytes();
            bytes.extend_from_slice(&le[..bl]);
        }
    }
    Value::from_bytes(bytes)
}

/// Decode a scalar/array Value into unsigned residues mod 2^w.
pub fn as_bytes(v: &Value) -> Option<Vec<u8>> {
    v.access(|b| Ok(Some(b.to_vec())), |_| Ok(None)).unwrap_or(None)
}

pub fn as_vec(v: &Value) -> Option<Vec<Value>> {
    v.access(|_| Ok(None), |vs| Ok(Some(vs.clone()))).unwrap_or(None)
}

pub fn dec(v: &Value, t: &Type) -> Vec<u128> {
    let st = t.get_scalar_type();
    let n = num_elems(t);
    v.access(|bytes| {
        let mut out = Vec::with_capacity(n);
        if st == BIT {
            for i in 0..n {
                let b = if i / 8 < bytes.len() { bytes[i / 8] } else { 0 };
                out.push(((b >> (i % 8)) & 1) as u128);
            }
        } else {
            let bl = (st_bits(st) / 8) as usize;
            for i in 0..n {
                let mut le = [0u8; 16];
                for j in 0..bl {
                    if i * bl + j < bytes.len() {
                        le[j] = bytes[i * bl + j];
                    }
                }
                out.push(u128::from_le_bytes(le));
            }
        }
        Ok(out)
    }, |_| Ok(vec![0u128; n]))
    .expect("dec")
}

/// Signed interpretation of a residue.
pub fn to_signed(x: u128, st: ScalarType) -> i128 {
    let b = st_bits(st);
    if !st.is_signed() || b == 128 {
        return x as i128;
    }
    let m = st_mask(st);
    let x = x & m;
    if x >> (b - 1) & 1 == 1 {
        (x | !m) as i128
    } else {
        x as i128
    }
}

pub fn children_types(t: &Type) -> Vec<Type> {
    match t {
        Type::Tuple(ts) => ts.iter().map(|x| (**x).clone()).collect(),
        Type::Vector(n, et) => (0..*n).map(|_| (**et).clone()).collect(),
        Type::NamedTuple(nts) => nts.iter().map(|(_, x)| (**x).clone()).collect(),
        _ => panic!("children_types on leaf type"),
    }
}

pub fn is_leaf_type(t: &Type) -> bool {
    matches!(t, Type::Scalar(_) | Type::Array(_, _))
}

pub fn map_leaves(t: &Type, f: &mut dyn FnMut(&Type) -> Value) -> Value {
    if is_leaf_type(t) {
        f(t)
    } else {
        Value::from_vector(children_types(t).iter().map(|c| map_leaves(c, f)).collect())
    }
}

pub fn random_value(t: &Type, rng: &mut Rng) -> Value {
    map_leaves(t, &mut |lt| {
        let st = lt.get_scalar_type();
        let n = num_elems(lt);
        let vals: Vec<u128> = (0..n).map(|_| rng.next_u128() & st_mask(st)).collect();
        enc(&vals, st)
    })
}

/// Values biased to extremes: 0, 1, -1, min, max, small, uniform.
pub fn biased_value(t: &Type, rng: &mut Rng) -> Value {
    map_leaves(t, &mut |lt| {
        let st = lt.get_scalar_type();
        let n = num_elems(lt);
        let m = st_mask(st);
        let b = st_bits(st);
        let vals: Vec<u128> = (0..n)
            .map(|_| match rng.below(8) {
                0 => 0,
                1 => 1 & m,
                2 => m,
                3 => {
                    if b > 1 {
                        1u128 << (b - 1)
                    } else {
                        1
                    }
                }
                4 => {
                    if b > 1 {
                        (1u128 << (b - 1)) - 1
                    } else {
                        0
                    }
                }
                5 => rng.below(16) as u128 & m,
                _ => rng.next_u128() & m,
            })
            .collect();
        enc(&vals, st)
    })
}

pub fn const_value(t: &Type, x: u128) -> Value {
    map_leaves(t, &mut |lt| {
        let st = lt.get_scalar_type();
        enc(&vec![x & st_mask(st); num_elems(lt)], st)
    })
}

/// a + b (type-recursive, mod 2^w; XOR for bits).
pub fn add_values(t: &Type, a: &Value, b: &Value) -> Value {
    if is_leaf_type(t) {
        let st = t.get_scalar_type();
        let x = dec(a, t);
        let y = dec(b, t);
        let z: Vec<u128> = x.iter().zip(y.iter()).map(|(p, q)| p.wrapping_add(*q) & st_mask(st)).collect();
        enc(&z, st)
    } else {
        let av = as_vec(a).expect("add_values: vector expected");
        let bv = as_vec(b).expect("add_values: vector expected");
        let cts = children_types(t);
        Value::from_vector(
            cts.iter().enumerate().map(|(i, ct)| add_values(ct, &av[i], &bv[i])).collect(),
        )
    }
}

pub fn sub_values(t: &Type, a: &Value, b: &Value) -> Value {
    if is_leaf_type(t) {
        let st = t.get_scalar_type();
        let x = dec(a, t);
        let y = dec(b, t);
        let z: Vec<u128> = x.iter().zip(y.iter()).map(|(p, q)| p.wrapping_sub(*q) & st_mask(st)).collect();
        enc(&z, st)
    } else {
        let av = as_vec(a).expect("sub_values: vector expected");
        let bv = as_vec(b).expect("sub_values: vector expected");
        let cts = children_types(t);
        Value::from_vector(
            cts.iter().enumerate().map(|(i, ct)| sub_values(ct, &av[i], &bv[i])).collect(),
        )
    }
}

/// Render a value as nested JSON numbers (unsigned residues) for humans.
pub fn render(t: &Type, v: &Value) -> serde_json::Value {
    if is_leaf_type(t) {
        let xs = dec(v, t);
        let st = t.get_scalar_type();
        let strs: Vec<serde_json::Value> = xs
            .iter()
            .take(64)
            .map(|x| {
                if st.is_signed() {
                    serde_json::Value::String(to_signed(*x, st).to_string())
                } else if *x < (1u128 << 53) {
                    serde_json::json!(*x as u64)
                } else {
                    serde_json::Value::String(x.to_string())
                }
            })
            .collect();
        serde_json::Value::Array(strs)
    } else {
        match as_vec(v).ok_or(()) {
            Ok(vs) => {
                let cts = children_types(t);
                if vs.len() != cts.len() {
                    return serde_json::json!("<shape mismatch>");
                }
                serde_json::Value::Array(cts.iter().zip(vs.iter()).map(|(ct, cv)| render(ct, cv)).collect())
            }
            Err(_) => serde_json::json!("<not a vector>"),
        }
    }
}

pub fn value_hash(v: &Value) -> u64 {
    use std::collections::hash_map::DefaultHasher;
    use std::hash::Hasher;
    // DefaultHasher::new() uses fixed keys (deterministic across processes).
    let mut h = DefaultHasher::new();
    hash_into(v, &mut h);
    h.finish()
}

fn hash_into(v: &Value, h: &mut std::collections::hash_map::DefaultHasher) {
    use std::hash::Hasher;
    let r = as_bytes(v).ok_or(());
    match r {
        Ok(b) => {
            h.write_u8(0);
            h.write_usize(b.len());
            h.write(&b);
        }
        Err(_) => {
            let vs = as_vec(v).unwrap_or_default();
            h.write_u8(1);
            h.write_usize(vs.len());
            for c in vs {
                hash_into(&c, h);
            }
        }
    }
}

pub fn seed_from_u64(x: u64) -> [u8; 16] {
    let mut r = Rng::new(x);
    r.seed16()
}

/// Typed (semantic) equality: compares decoded elements, so unused padding bits of packed bit
/// arrays do not matter. Returns false on shape mismatch.
pub fn typed_eq(t: &Type, a: &Value, b: &Value) -> bool {
    if is_leaf_type(t) {
        match (as_bytes(a), as_bytes(b)) {
            (Some(x), Some(y)) => {
                let st = t.get_scalar_type();
                let need = if st == BIT { (num_elems(t) + 7) / 8 } else { num_elems(t) * (st_bits(st) as usize / 8) };
                if x.len() < need || y.len() < need {
                    return false;
                }
                dec(a, t) == dec(b, t)
            }
            _ => false,
        }
    } else {
        match (as_vec(a), as_vec(b)) {
            (Some(x), Some(y)) => {
                let cts = children_types(t);
                x.len() == cts.len() && y.len() == cts.len() && cts.iter().enumerate().all(|(i, ct)| typed_eq(ct, &x[i], &y[i]))
            }
            _ => false,
        }
    }
}

pub fn raw_bytes_hex(v: &Value) -> String {
    match as_bytes(v) {
        Some(b) => b.iter().map(|x| format!("{:02x}", x)).collect::<Vec<_>>().join(""),
        None => as_vec(v).map(|vs| format!("[{}]", vs.iter().map(raw_bytes_hex).collect::<Vec<_>>().join(","))).unwrap_or_default(),
    }
}

/// All bytes of a value, leaves in order.
pub fn flat_bytes(v: &Value) -> Vec<u8> {
    match as_bytes(v) {
        Some(b) => b,
        None => as_vec(v).unwrap_or_default().iter().flat_map(flat_bytes).collect(),
    }
}

/// True when every byte of an encoding of `t` is fully used (no padding bits, no one-bit bytes), so that every byte
/// of a uniformly random value of the type is uniform.
pub fn all_bytes_full(t: &Type) -> bool {
    match t {
        Type::Scalar(st) => *st != BIT,
        Type::Array(_, st) => *st != BIT || num_elems(t) % 8 == 0,
        Type::Tuple(ts) => ts.iter().all(|x| all_bytes_full(x)),
        Type::Vector(_, et) => all_bytes_full(et),
        Type::NamedTuple(ts) => ts.iter().all(|(_, x)| all_bytes_full(x)),
    }
}

/// Shifted-copy detector for two byte strings that should be independent and uniform: is there a shift d such that
/// x[j] == y[j + d] for at least max(12, overlap / 3) positions? For independent uniform bytes the number of matches at
/// one shift is Binomial(overlap, 1/256); 12 matches out of 16 have probability < 2e-26, so over every shift, pair and
/// case of a thorough run the false-alarm probability stays below 1e-10. `same` = x and y are the same string
/// (autocorrelation; shift 0 is skipped). Returns (shift, overlap, matches).
pub fn shifted_copy(x: &[u8], y: &[u8], same: bool) -> Option<(i64, usize, usize)> {
    let (lx, ly) = (x.len() as i64, y.len() as i64);
    if lx < 16 || ly < 16 {
        return None;
    }
    let lmax = lx.max(ly);
    let mut shifts: Vec<i64> = vec![];
    if lmax <= 128 {
        shifts.extend(-(lmax - 1)..lmax);
    } else {
        shifts.extend(-64..=64);
        let mut d = 80;
        while d < lmax && d <= 4096 {
            shifts.push(d);
            shifts.push(-d);
            d += 16;
        }
        for k in 2..=4 {
            shifts.push(lmax / k);
            shifts.push(-(lmax / k));
        }
    }
    for d in shifts {
        if same && d == 0 {
            continue;
        }
        // positions j of x with 0 <= j + d < ly
        let lo = 0.max(-d);
        let hi = lx.min(ly - d);
        if hi - lo < 16 {
            continue;
        }
        let m = (hi - lo) as usize;
        let mut matches = 0usize;
        for j in lo..hi {
            if x[j as usize] == y[(j + d) as usize] {
                matches += 1;
            }
        }
        if matches >= 12.max(m / 3) {
            return Some((d, m, matches));
        }
    }
    None
}

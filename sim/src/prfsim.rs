//! prfsim (C15): M evaluator instances evaluate PRF / PermutationFromPRF nodes from a pool of
//! (key, counter, type) triples in seeded interleavings with noise draws and restarts; the model is
//! a memo table. Plus PRNG replay and range/uniformity checks.

use crate::harness::{run_cases, write_evidence, write_replay, Args, EvidenceOut, Tier};
use crate::rng::Rng;
use crate::trisim::guarded;
use crate::vals::{as_bytes, as_vec, children_types, is_leaf_type, num_elems, seed_from_u64, value_hash};
use ciphercore_base::data_types::{array_type, named_tuple_type, scalar_type, tuple_type, vector_type, Type, BIT, INT128, INT16, INT32, INT64, INT8, UINT128, UINT16, UINT32, UINT64, UINT8};
use ciphercore_base::data_values::Value;
use ciphercore_base::evaluators::simple_evaluator::SimpleEvaluator;
use ciphercore_base::evaluators::Evaluator;
use ciphercore_base::graphs::{create_context, Node};
use ciphercore_base::random::PRNG;
use serde::{Deserialize, Serialize};
use std::collections::BTreeMap;

#[derive(Clone, Debug, Serialize, Deserialize)]
pub enum POp {
    /// evaluate pool triple `t` at instance `inst`
    Prf { inst: usize, triple: usize },
    /// unrelated Random draw at instance `inst` (type index)
    Noise { inst: usize, ty: usize },
    Restart { inst: usize },
}

#[derive(Clone, Debug, Serialize, Deserialize)]
pub struct Triple {
    pub key: usize,
    pub iv: u64,
    /// Some(type index) for PRF; None + n for PermutationFromPRF
    pub ty: Option<usize>,
    pub perm_n: u64,
}

#[derive(Clone, Debug, Serialize, Deserialize)]
pub struct PrfHistory {
    pub instances: usize,
    pub keys: Vec<Vec<u8>>,
    pub triples: Vec<Triple>,
    pub ops: Vec<POp>,
    pub inst_seeds: Vec<u64>,
}

#[derive(Clone, Debug, Serialize, Deserialize)]
pub struct PrfReplay {
    pub property: String,
    pub engine: String,
    pub seed: u64,
    pub case_index: u64,
    pub history: PrfHistory,
    pub class: String,
    pub detail: String,
    #[serde(default)]
    pub minimised: bool,
}

pub fn type_pool() -> Vec<Type> {
    vec![
        scalar_type(BIT),
        scalar_type(UINT8),
        scalar_type(INT8),
        scalar_type(UINT16),
        scalar_type(INT16),
        scalar_type(UINT32),
        scalar_type(INT32),
        scalar_type(UINT64),
        scalar_type(INT64),
        scalar_type(UINT128),
        scalar_type(INT128),
        array_type(vec![7], BIT),
        array_type(vec![9], BIT),
        array_type(vec![513], BIT),
        array_type(vec![4097], BIT),
        array_type(vec![63], UINT8),
        array_type(vec![64], UINT8),
        array_type(vec![65], UINT8),
        array_type(vec![8], UINT64),
        array_type(vec![9], INT64),
        array_type(vec![511], UINT8),
        array_type(vec![512], UINT8),
        array_type(vec![513], INT8),
        array_type(vec![33], UINT128),
        array_type(vec![3, 5], INT32),
        array_type(vec![2, 3, 4], UINT16),
        tuple_type(vec![array_type(vec![3], UINT8), array_type(vec![5], BIT), array_type(vec![2], INT128)]),
        vector_type(3, array_type(vec![2], UINT16)),
        named_tuple_type(vec![("a".into(), scalar_type(INT64)), ("b".into(), array_type(vec![70], UINT8))]),
        tuple_type(vec![]),
        vector_type(20, array_type(vec![30], UINT8)),
        vector_type(3, array_type(vec![5], BIT)),
        vector_type(4, scalar_type(BIT)),
        tuple_type(vec![array_type(vec![3], BIT), array_type(vec![11], BIT), scalar_type(BIT)]),
        named_tuple_type(vec![("m".into(), array_type(vec![13], BIT)), ("n".into(), vector_type(2, array_type(vec![9], BIT)))]),
        vector_type(70, array_type(vec![3], BIT)),
    ]
}

/// Every generated value is a valid encoding of its type: right byte lengths, zero padding bits.
pub fn valid_encoding(t: &Type, v: &Value) -> Result<(), String> {
    if is_leaf_type(t) {
        let b = as_bytes(v).ok_or("leaf value is not bytes")?;
        let st = t.get_scalar_type();
        let n = num_elems(t);
        if st == BIT {
            let need = (n + 7) / 8;
            if b.len() != need {
                return Err(format!("bit array of {} elements has {} bytes", n, b.len()));
            }
            if n % 8 != 0 && (b[need - 1] >> (n % 8)) != 0 {
                return Err(format!("bit array of {} elements has non-zero padding bits in its last byte {:08b}", n, b[need - 1]));
            }
        } else {
            let need = n * (st.size_in_bits() as usize / 8);
            if b.len() != need {
                return Err(format!("array of {} x {} has {} bytes", n, st, b.len()));
            }
        }
        Ok(())
    } else {
        let vs = as_vec(v).ok_or("container value is not a vector")?;
        let cts = children_types(t);
        if vs.len() != cts.len() {
            return Err(format!("container has {} children, type has {}", vs.len(), cts.len()));
        }
        for (ct, cv) in cts.iter().zip(vs.iter()) {
            valid_encoding(ct, cv)?;
        }
        Ok(())
    }
}

pub fn is_permutation(v: &Value, n: u64) -> bool {
    let t = array_type(vec![n], UINT64);
    let xs = crate::vals::dec(v, &t);
    if xs.len() != n as usize {
        return false;
    }
    let mut seen = vec![false; n as usize];
    for x in xs {
        if x >= n as u128 || seen[x as usize] {
            return false;
        }
        seen[x as usize] = true;
    }
    true
}

struct World {
    /// keeps the context alive: nodes hold only weak references to their graph
    _ctx: ciphercore_base::graphs::Context,
    key_nodes: Vec<Node>,
    prf_nodes: Vec<Node>,
    noise_nodes: Vec<Node>,
    types: Vec<Type>,
}

fn build_world(h: &PrfHistory) -> Result<World, String> {
    let es = crate::dsl::es;
    let types = type_pool();
    let ctx = create_context().map_err(es)?;
    let g = ctx.create_graph().map_err(es)?;
    let kt = array_type(vec![128], BIT);
    let mut key_nodes = vec![];
    for _ in &h.keys {
        key_nodes.push(g.input(kt.clone()).map_err(es)?);
    }
    let mut prf_nodes = vec![];
    for t in &h.triples {
        let k = key_nodes[t.key].clone();
        let n = match t.ty {
            Some(ti) => k.prf(t.iv, types[ti].clone()).map_err(es)?,
            None => k.permutation_from_prf(t.iv, t.perm_n).map_err(es)?,
        };
        prf_nodes.push(n);
    }
    let mut noise_nodes = vec![];
    for t in &types {
        noise_nodes.push(g.random(t.clone()).map_err(es)?);
    }
    Ok(World { _ctx: ctx, key_nodes, prf_nodes, noise_nodes, types })
}

pub fn gen_history(rng: &mut Rng) -> PrfHistory {
    let types = type_pool();
    let instances = 2 + rng.usize_below(3);
    let nkeys = 1 + rng.usize_below(3);
    let keys: Vec<Vec<u8>> = (0..nkeys).map(|_| rng.bytes(16)).collect();
    let ntr = 2 + rng.usize_below(8);
    let mut triples = vec![];
    for _ in 0..ntr {
        let key = rng.usize_below(nkeys);
        let iv = *rng.pick(&[0u64, 1, 2, 3, 7, 1 << 32, u64::MAX, 12345]);
        if rng.chance(1, 5) {
            triples.push(Triple { key, iv, ty: None, perm_n: *rng.pick(&[1u64, 2, 5, 16, 100]) });
        } else {
            triples.push(Triple { key, iv, ty: Some(rng.usize_below(types.len())), perm_n: 0 });
        }
    }
    // sometimes the same (key, iv) with two different types: prefix-related streams, still pure
    if rng.chance(1, 2) && !triples.is_empty() {
        let mut t = triples[0].clone();
        t.ty = Some(rng.usize_below(types.len()));
        triples.push(t);
    }
    let nops = 6 + rng.usize_below(40);
    let mut ops = vec![];
    for _ in 0..nops {
        ops.push(match rng.below(10) {
            0 => POp::Restart { inst: rng.usize_below(instances) },
            1 | 2 => POp::Noise { inst: rng.usize_below(instances), ty: rng.usize_below(types.len()) },
            _ => POp::Prf { inst: rng.usize_below(instances), triple: rng.usize_below(triples.len()) },
        });
    }
    PrfHistory { instances, keys, triples, ops, inst_seeds: (0..instances).map(|_| rng.next_u64()).collect() }
}

#[derive(Default)]
pub struct PrfStats {
    pub evals: u64,
    pub repeats: u64,
    pub cross_instance_repeats: u64,
    pub restarts: u64,
    pub noise: u64,
    pub after_restart_repeats: u64,
    pub distinct_pairs: u64,
    pub agree_bits: u64,
    pub total_bits: u64,
    pub stream_reuse_tests: u64,
}

/// Runs a history; returns the first violation (class, detail).
pub fn run_history(h: &PrfHistory, st: &mut PrfStats) -> Option<(String, String)> {
    let w = match build_world(h) {
        Ok(w) => w,
        Err(e) => return Some(("harness".into(), e)),
    };
    let mut evals: Vec<SimpleEvaluator> = h.inst_seeds.iter().map(|s| SimpleEvaluator::new(Some(seed_from_u64(*s))).unwrap()).collect();
    let mut restarted = vec![false; h.instances];
    // model: memo table
    let mut memo: BTreeMap<usize, (Value, usize)> = BTreeMap::new();
    let mut last_noise: BTreeMap<usize, Vec<u8>> = BTreeMap::new();
    let key_vals: Vec<Value> = h.keys.iter().map(|k| Value::from_bytes(k.clone())).collect();
    for (oi, op) in h.ops.iter().enumerate() {
        match op {
            POp::Restart { inst } => {
                last_noise.remove(inst);
                evals[*inst] = SimpleEvaluator::new(Some(seed_from_u64(h.inst_seeds[*inst] ^ (oi as u64 + 1)))).unwrap();
                restarted[*inst] = true;
                st.restarts += 1;
            }
            POp::Noise { inst, ty } => {
                st.noise += 1;
                let node = w.noise_nodes[*ty].clone();
                let r = guarded(|| evals[*inst].evaluate_node(node, vec![]));
                match r {
                    Err(p) => return Some(("panic".into(), format!("op {} Random({}): {}", oi, crate::dsl::type_str(&w.types[*ty]), p))),
                    Ok(Err(e)) => return Some(("random-error".into(), format!("op {}: {}", oi, crate::dsl::es(e)))),
                    Ok(Ok(v)) => {
                        if let Err(e) = valid_encoding(&w.types[*ty], &v) {
                            return Some(("invalid-encoding".into(), format!("op {} Random({}): {}", oi, crate::dsl::type_str(&w.types[*ty]), e)));
                        }
                        // successive draws of one generator are unrelated: never equal, never a shifted copy of the
                        // previous draw or of themselves (a generator that forgets to advance its state)
                        let t = &w.types[*ty];
                        if crate::vals::all_bytes_full(t) && ciphercore_base::data_types::get_size_in_bits(t.clone()).unwrap_or(0) >= 128 {
                            let cur = crate::vals::flat_bytes(&v);
                            st.stream_reuse_tests += 1;
                            if let Some((d, m, k)) = crate::vals::shifted_copy(&cur, &cur, true) {
                                return Some(("stream-reused".into(), format!("op {} Random({}): the value repeats itself at shift {} ({} of {} bytes)", oi, crate::dsl::type_str(t), d, k, m)));
                            }
                            if let Some(prev) = last_noise.get(inst) {
                                if let Some((d, m, k)) = crate::vals::shifted_copy(prev, &cur, false) {
                                    return Some((
                                        "stream-reused".into(),
                                        format!("op {} Random({}): agrees with the previous draw of the same generator in {} of {} bytes at shift {}", oi, crate::dsl::type_str(t), k, m, d),
                                    ));
                                }
                            }
                            last_noise.insert(*inst, cur);
                        }
                    }
                }
            }
            POp::Prf { inst, triple } => {
                st.evals += 1;
                let t = &h.triples[*triple];
                let node = w.prf_nodes[*triple].clone();
                let kv = key_vals[t.key].clone();
                let r = guarded(|| evals[*inst].evaluate_node(node, vec![kv]));
                let v = match r {
                    Err(p) => return Some(("panic".into(), format!("op {} PRF triple {}: {}", oi, triple, p))),
                    Ok(Err(e)) => return Some(("prf-error".into(), format!("op {}: {}", oi, crate::dsl::es(e)))),
                    Ok(Ok(v)) => v,
                };
                match t.ty {
                    Some(ti) => {
                        if crate::vals::all_bytes_full(&w.types[ti]) {
                            let cur = crate::vals::flat_bytes(&v);
                            if cur.len() >= 32 {
                                st.stream_reuse_tests += 1;
                                if let Some((d, m, k)) = crate::vals::shifted_copy(&cur, &cur, true) {
                                    return Some(("stream-reused".into(), format!("op {} PRF({}, {}): the value repeats itself at shift {} ({} of {} bytes)", oi, t.iv, crate::dsl::type_str(&w.types[ti]), d, k, m)));
                                }
                            }
                        }
                        if let Err(e) = valid_encoding(&w.types[ti], &v) {
                            return Some(("invalid-encoding".into(), format!("op {} PRF({}, {}): {}", oi, t.iv, crate::dsl::type_str(&w.types[ti]), e)));
                        }
                        match v.check_type(w.types[ti].clone()) {
                            Ok(true) => {}
                            _ => return Some(("invalid-encoding".into(), format!("op {} PRF output fails check_type", oi))),
                        }
                    }
                    None => {
                        if !is_permutation(&v, t.perm_n) {
                            return Some(("not-a-permutation".into(), format!("op {} PermutationFromPRF({}, {}) is not a permutation of 0..{}", oi, t.iv, t.perm_n, t.perm_n)));
                        }
                    }
                }
                match memo.get(triple) {
                    Some((mv, first_inst)) => {
                        st.repeats += 1;
                        if *first_inst != *inst {
                            st.cross_instance_repeats += 1;
                        }
                        if restarted[*inst] {
                            st.after_restart_repeats += 1;
                        }
                        if *mv != v {
                            return Some((
                                "prf-not-pure".into(),
                                format!(
                                    "op {}: PRF(key {}, counter {}, {}) at instance {} differs from its first evaluation at instance {}",
                                    oi,
                                    t.key,
                                    t.iv,
                                    t.ty.map(|ti| crate::dsl::type_str(&w.types[ti])).unwrap_or_else(|| format!("perm {}", t.perm_n)),
                                    inst,
                                    first_inst
                                ),
                            ));
                        }
                    }
                    None => {
                        memo.insert(*triple, (v, *inst));
                    }
                }
            }
        }
    }
    let _ = &w.key_nodes;
    // different counter or key gives a different, unrelated value (>= 64-bit outputs)
    let items: Vec<(&usize, &(Value, usize))> = memo.iter().collect();
    for i in 0..items.len() {
        for j in i + 1..items.len() {
            let (a, b) = (&h.triples[*items[i].0], &h.triples[*items[j].0]);
            if a.ty.is_none() || a.ty != b.ty {
                continue;
            }
            let same_input = h.keys[a.key] == h.keys[b.key] && a.iv == b.iv;
            if same_input {
                if items[i].1 .0 != items[j].1 .0 {
                    return Some(("prf-not-pure".into(), "two nodes with the same key, counter and type gave different values".into()));
                }
                continue;
            }
            let t = &w.types[a.ty.unwrap()];
            let bits = ciphercore_base::data_types::get_size_in_bits(t.clone()).unwrap_or(0);
            if bits >= 64 {
                if items[i].1 .0 == items[j].1 .0 {
                    return Some(("prf-collision".into(), format!("different (key, counter) give the same {}-bit value", bits)));
                }
                // bitwise agreement over the meaningful bits only (padding bits of packed bit arrays are always zero)
                if crate::vals::all_bytes_full(t) {
                    st.stream_reuse_tests += 1;
                    let (x, y) = (crate::vals::flat_bytes(&items[i].1 .0), crate::vals::flat_bytes(&items[j].1 .0));
                    if let Some((d, m, k)) = crate::vals::shifted_copy(&x, &y, false) {
                        return Some(("prf-collision".into(), format!("different (key, counter) give {} values that agree in {} of {} bytes at shift {}", crate::dsl::type_str(t), k, m, d)));
                    }
                }
                let (agree, n) = agreement(t, &items[i].1 .0, &items[j].1 .0, 512);
                st.distinct_pairs += 1;
                st.agree_bits += agree;
                st.total_bits += n;
            }
        }
    }
    None
}

/// (agreeing bits, compared bits) over decoded elements, at most `limit` bits.
fn agreement(t: &Type, a: &Value, b: &Value, limit: u64) -> (u64, u64) {
    if is_leaf_type(t) {
        let w = crate::vals::st_bits(t.get_scalar_type()) as u64;
        let (x, y) = (crate::vals::dec(a, t), crate::vals::dec(b, t));
        let mut agree = 0;
        let mut n = 0;
        for (p, q) in x.iter().zip(y.iter()) {
            if n + w > limit {
                break;
            }
            let d = (p ^ q) & crate::vals::st_mask(t.get_scalar_type());
            agree += w - d.count_ones() as u64;
            n += w;
        }
        (agree, n)
    } else {
        let (xs, ys) = (as_vec(a).unwrap_or_default(), as_vec(b).unwrap_or_default());
        let mut agree = 0;
        let mut n = 0;
        for ((ct, x), y) in children_types(t).iter().zip(xs.iter()).zip(ys.iter()) {
            if n >= limit {
                break;
            }
            let (a2, n2) = agreement(ct, x, y, limit - n);
            agree += a2;
            n += n2;
        }
        (agree, n)
    }
}

fn flat_bytes(v: &Value) -> Vec<u8> {
    match as_bytes(v) {
        Some(b) => b,
        None => as_vec(v).unwrap_or_default().iter().flat_map(flat_bytes).collect(),
    }
}

fn minimise(mut rp: PrfReplay) -> PrfReplay {
    let class = rp.class.clone();
    let mut i = 0;
    let mut budget = 400;
    while i < rp.history.ops.len() && budget > 0 {
        budget -= 1;
        let mut cand = rp.history.clone();
        cand.ops.remove(i);
        let mut st = PrfStats::default();
        match run_history(&cand, &mut st) {
            Some((c, d)) if c == class => {
                rp.history = cand;
                rp.detail = d;
            }
            _ => i += 1,
        }
    }
    rp.minimised = true;
    rp
}

/// chi-square with the conservative rule of DESIGN §4 C03: violation only if chi2 > k + 2 sqrt(40 k) + 80.
pub fn chi2_exceeds(counts: &[u64], expected: f64) -> (bool, f64) {
    let k = (counts.len() - 1) as f64;
    let chi2: f64 = counts.iter().map(|c| (*c as f64 - expected).powi(2) / expected).sum();
    (chi2 > k + 2.0 * (40.0 * k).sqrt() + 80.0, chi2)
}

/// PRNG: replay from seed; bounded draws in range and unbiased.
pub fn prng_checks(seed: u64, draws: usize, counters: &mut BTreeMap<String, u64>) -> Option<(String, String)> {
    let es = crate::dsl::es;
    let mut rng = Rng::new(seed);
    let types = type_pool();
    // replay of an arbitrary seeded call sequence
    for round in 0..8 {
        let s = seed_from_u64(rng.next_u64());
        let calls: Vec<(u8, u64)> = (0..30).map(|_| (rng.below(3) as u8, rng.next_u64())).collect();
        let run = |s: [u8; 16]| -> Result<Vec<u64>, String> {
            let mut p = PRNG::new(Some(s)).map_err(es)?;
            let mut out = vec![];
            for (k, x) in &calls {
                match k {
                    0 => out.push(value_hash(&p.get_random_value(types[(*x % types.len() as u64) as usize].clone()).map_err(es)?)),
                    1 => out.push(crate::rng::hash_bytes(&p.get_random_bytes((*x % 700) as usize).map_err(es)?)),
                    _ => out.push(p.get_random_in_range(Some(1 + *x % 1000)).map_err(es)?),
                }
            }
            Ok(out)
        };
        match (guarded(|| run(s)), guarded(|| run(s))) {
            (Ok(Ok(a)), Ok(Ok(b))) => {
                if a != b {
                    return Some(("prng-replay-differs".into(), format!("round {}: a generator re-created from its seed does not replay the same call sequence", round)));
                }
                *counters.entry("prng:replayed-sequences".into()).or_insert(0) += 1;
            }
            (Err(p), _) | (_, Err(p)) => return Some(("panic".into(), p)),
            (Ok(Err(e)), _) | (_, Ok(Err(e))) => return Some(("prng-error".into(), e)),
        }
    }
    // bounded draws
    // the last two moduli leave a large remainder 2^64 mod m (a quarter and three eighths of 2^64): without the
    // rejection step the values below the remainder come out twice as often as the others
    let moduli: [u64; 11] = [1, 2, 3, 5, 6, 7, 10, (1u64 << 31) + 1, (1u64 << 63) + 1, 3u64 << 62, 5u64 << 61];
    let mut p = match PRNG::new(Some(seed_from_u64(rng.next_u64()))) {
        Ok(p) => p,
        Err(e) => return Some(("prng-error".into(), es(e))),
    };
    for m in moduli {
        let cells = if m <= 10 { m as usize } else { 16 };
        let mut counts = vec![0u64; cells];
        for _ in 0..draws {
            let x = match guarded(|| p.get_random_in_range(Some(m))) {
                Ok(Ok(x)) => x,
                Ok(Err(e)) => return Some(("prng-error".into(), es(e))),
                Err(pn) => return Some(("panic".into(), pn)),
            };
            if x >= m {
                return Some(("out-of-range".into(), format!("get_random_in_range({}) returned {}", m, x)));
            }
            let c = if m <= 10 { x as usize } else { ((x as u128 * cells as u128) / m as u128) as usize };
            counts[c] += 1;
        }
        *counters.entry("prng:bounded-draws".into()).or_insert(0) += draws as u64;
        if cells > 1 {
            // for big moduli cells are equal up to 1/m
            let (bad, chi2) = chi2_exceeds(&counts, draws as f64 / cells as f64);
            if bad {
                return Some(("modulo-bias".into(), format!("get_random_in_range({}): chi2 = {:.1} over {} cells, {} draws: {:?}", m, chi2, cells, draws, counts)));
            }
        }
    }
    // every bit of a random bit array is uniform, also when the array ends inside a byte (the generator clears the
    // padding bits of the LAST byte only): per-bit frequencies over many draws of ragged bit arrays, through the PRNG
    // and through a Random node of the evaluator. Hoeffding: |count - N/2| >= sqrt(20 N) has probability < 2 e^-40.
    {
        let n_draws = (draws / 100).clamp(2000, 20000);
        let bound = (20.0 * n_draws as f64).sqrt();
        for bits in [9u64, 13, 27, 70] {
            let t = array_type(vec![bits], BIT);
            for source in 0..2 {
                let mut counts = vec![0u64; bits as usize];
                let mut pr = match PRNG::new(Some(seed_from_u64(rng.next_u64()))) {
                    Ok(p) => p,
                    Err(e) => return Some(("prng-error".into(), es(e))),
                };
                let ctxr = create_context().ok()?;
                let gr = ctxr.create_graph().ok()?;
                let rnode = gr.random(t.clone()).ok()?;
                let mut evr = SimpleEvaluator::new(Some(seed_from_u64(rng.next_u64()))).ok()?;
                for _ in 0..n_draws {
                    let v = if source == 0 {
                        match guarded(|| pr.get_random_value(t.clone())) {
                            Ok(Ok(v)) => v,
                            Ok(Err(e)) => return Some(("prng-error".into(), es(e))),
                            Err(pn) => return Some(("panic".into(), pn)),
                        }
                    } else {
                        match guarded(|| evr.evaluate_node(rnode.clone(), vec![])) {
                            Ok(Ok(v)) => v,
                            Ok(Err(e)) => return Some(("prng-error".into(), es(e))),
                            Err(pn) => return Some(("panic".into(), pn)),
                        }
                    };
                    if let Err(e) = valid_encoding(&t, &v) {
                        return Some(("invalid-encoding".into(), format!("random value of type bit[{}]: {}", bits, e)));
                    }
                    for (i, b) in crate::vals::dec(&v, &t).iter().enumerate() {
                        counts[i] += *b as u64;
                    }
                }
                for (i, c) in counts.iter().enumerate() {
                    if (*c as f64 - n_draws as f64 / 2.0).abs() > bound {
                        return Some((
                            "biased-bits".into(),
                            format!("{} of type bit[{}]: bit {} is set in {} of {} draws (every bit of the array must be uniform; bound {:.0})", if source == 0 { "PRNG::get_random_value" } else { "Random node" }, bits, i, c, n_draws, bound),
                        ));
                    }
                }
                *counters.entry("prng:ragged-bit-array-bits-tested".into()).or_insert(0) += bits;
            }
        }
    }
    // Fisher-Yates swap indices of PermutationFromPRF are uniform: recover j_i from the permutation
    // (value i sits at position j_i when steps > i are undone) and test j_i / (i + 1) for uniformity
    {
        let ctxp = create_context().ok()?;
        let gp = ctxp.create_graph().ok()?;
        let kin = gp.input(array_type(vec![128], BIT)).ok()?;
        let n: u64 = 1500;
        let pnode = kin.permutation_from_prf(7, n).ok()?;
        let mut evp = SimpleEvaluator::new(Some(seed_from_u64(rng.next_u64()))).ok()?;
        let perms = (draws / 400).clamp(200, 4000);
        let cells = 16usize;
        let mut counts = vec![0u64; cells];
        let mut total = 0u64;
        for _ in 0..perms {
            let key = Value::from_bytes(rng.bytes(16));
            let v = match guarded(|| evp.evaluate_node(pnode.clone(), vec![key])) {
                Ok(Ok(v)) => v,
                Ok(Err(e)) => return Some(("prf-error".into(), es(e))),
                Err(pn) => return Some(("panic".into(), pn)),
            };
            if !is_permutation(&v, n) {
                return Some(("not-a-permutation".into(), format!("PermutationFromPRF(7, {}) is not a permutation", n)));
            }
            let mut a: Vec<usize> = crate::vals::dec(&v, &array_type(vec![n], UINT64)).iter().map(|x| *x as usize).collect();
            let mut pos = vec![0usize; n as usize];
            for (i, x) in a.iter().enumerate() {
                pos[*x] = i;
            }
            for i in (1..n as usize).rev() {
                let j = pos[i];
                // undo swap(i, j)
                let (vi, vj) = (a[i], a[j]);
                a.swap(i, j);
                pos[vi] = j;
                pos[vj] = i;
                if i >= 300 {
                    counts[(j * cells) / (i + 1)] += 1;
                    total += 1;
                }
            }
        }
        *counters.entry("prng:fisher-yates-indices-recovered".into()).or_insert(0) += total;
        let (bad, chi2) = chi2_exceeds(&counts, total as f64 / cells as f64);
        if bad {
            return Some(("permutation-bias".into(), format!("PermutationFromPRF(_, {}): recovered Fisher-Yates indices j_i/(i+1) are not uniform over {} permutations: chi2 = {:.1}, cells {:?}", n, perms, chi2, counts)));
        }
    }
    // large permutations: draws for i >= 65536 need 4 random bytes (and cross the PRF's internal batch
    // boundaries); the number of indices j_i < 65536 among them has a known mean and variance
    {
        let ctxp = create_context().ok()?;
        let gp = ctxp.create_graph().ok()?;
        let kin = gp.input(array_type(vec![128], BIT)).ok()?;
        let n: usize = 131072;
        let pnode = kin.permutation_from_prf(3, n as u64).ok()?;
        let mut evp = SimpleEvaluator::new(Some(seed_from_u64(rng.next_u64()))).ok()?;
        let perms = (draws / 3000).clamp(64, 1024);
        let mut observed = 0f64;
        let mut mean = 0f64;
        let mut var = 0f64;
        // swap steps with modulus 32769..=65536 take the 3-byte draws: the number of indices in the lower half
        let (mut low_obs, mut low_mean, mut low_n) = (0f64, 0f64, 0f64);
        for _ in 0..perms {
            let key = Value::from_bytes(rng.bytes(16));
            let v = match guarded(|| evp.evaluate_node(pnode.clone(), vec![key])) {
                Ok(Ok(v)) => v,
                Ok(Err(e)) => return Some(("prf-error".into(), es(e))),
                Err(pn) => return Some(("panic".into(), pn)),
            };
            let bytes = crate::vals::as_bytes(&v).unwrap_or_default();
            if bytes.len() != n * 8 {
                return Some(("invalid-encoding".into(), "permutation value has a wrong length".into()));
            }
            let mut a: Vec<u32> = (0..n).map(|i| u64::from_le_bytes(bytes[i * 8..i * 8 + 8].try_into().unwrap()) as u32).collect();
            let mut pos = vec![0u32; n];
            let mut seen = vec![false; n];
            for (i, x) in a.iter().enumerate() {
                if (*x as usize) >= n || seen[*x as usize] {
                    return Some(("not-a-permutation".into(), format!("PermutationFromPRF(3, {}) is not a permutation", n)));
                }
                seen[*x as usize] = true;
                pos[*x as usize] = i as u32;
            }
            // the 4-byte draws come in batches of 128 per 512-byte PRF batch: also look at each residue class
            // of the draw index separately (512 draws per class and permutation)
            let mut class_obs = [0f64; 128];
            let mut class_mean = [0f64; 128];
            for i in (65536..n).rev() {
                let j = pos[i] as usize;
                let (vi, vj) = (a[i], a[j]);
                a.swap(i, j);
                pos[vi as usize] = j as u32;
                pos[vj as usize] = i as u32;
                let p = 65536.0 / (i as f64 + 1.0);
                if j < 65536 {
                    observed += 1.0;
                    class_obs[i % 128] += 1.0;
                }
                class_mean[i % 128] += p;
                mean += p;
                var += p * (1.0 - p);
            }
            for i in (32768..65536usize).rev() {
                let j = pos[i] as usize;
                let (vi, vj) = (a[i], a[j]);
                a.swap(i, j);
                pos[vi as usize] = j as u32;
                pos[vj as usize] = i as u32;
                let half = (i + 1) / 2;
                if j < half {
                    low_obs += 1.0;
                }
                low_mean += half as f64 / (i as f64 + 1.0);
                low_n += 1.0;
            }
            for r in 0..128 {
                // Hoeffding: P(|obs - mean| > t) <= 2 exp(-2 t^2 / 512); t = 105 gives < e^-42 per class
                if (class_obs[r] - class_mean[r]).abs() > 105.0 {
                    return Some((
                        "permutation-bias".into(),
                        format!(
                            "PermutationFromPRF(_, {}): among the 512 swap indices j_i with i >= 65536 and i mod 128 = {}, {} are below 65536 (expected {:.0}, Hoeffding bound 105): draws at a fixed position of the PRF batches are biased",
                            n, r, class_obs[r], class_mean[r]
                        ),
                    ));
                }
            }
        }
        // Hoeffding: |obs - mean| >= sqrt(20 N) has probability < 2 e^-40
        if (low_obs - low_mean).abs() > (20.0 * low_n).sqrt() {
            return Some((
                "permutation-bias".into(),
                format!("PermutationFromPRF(_, {}): of the {:.0} swap indices j_i with 32768 <= i < 65536 (3-byte draws), {:.0} lie in the lower half of their range, expected {:.0} (bound {:.0})", n, low_n, low_obs, low_mean, (20.0 * low_n).sqrt()),
            ));
        }
        *counters.entry("prng:large-permutations".into()).or_insert(0) += perms as u64;
        let z = (observed - mean) / var.sqrt();
        if z.abs() > 13.0 {
            return Some(("permutation-bias".into(), format!("PermutationFromPRF(_, {}): {} of the swap indices j_i (i >= 65536) are below 65536, expected {:.0} +- {:.0} (z = {:.1}) over {} permutations", n, observed, mean, var.sqrt(), z, perms)));
        }
    }
    // outputs for different counters (or keys) never share a 16-byte block at the same offset, whatever the
    // output size (the internal buffer grows 64 -> 128 -> 256 -> 512 bytes while a large value is produced)
    {
        let ctxb = create_context().ok()?;
        let gb = ctxb.create_graph().ok()?;
        let kin = gb.input(array_type(vec![128], BIT)).ok()?;
        let big_types = vec![
            array_type(vec![64], UINT8),
            array_type(vec![128], UINT8),
            array_type(vec![192], UINT8),
            array_type(vec![512], UINT8),
            array_type(vec![2048], UINT8),
            array_type(vec![40], UINT64),
            tuple_type(vec![array_type(vec![100], UINT8), array_type(vec![50], UINT64), array_type(vec![300], UINT8)]),
            vector_type(9, array_type(vec![64], UINT8)),
        ];
        let mut evb = SimpleEvaluator::new(Some(seed_from_u64(rng.next_u64()))).ok()?;
        for t in &big_types {
            let ivs = [0u64, 1, 2, 77, u64::MAX];
            let nodes: Vec<Node> = ivs.iter().filter_map(|iv| kin.prf(*iv, t.clone()).ok()).collect();
            for _ in 0..3 {
                let keys = [Value::from_bytes(rng.bytes(16)), Value::from_bytes(rng.bytes(16))];
                let mut outs: Vec<Vec<u8>> = vec![];
                for key in &keys {
                    for nd in &nodes {
                        match guarded(|| evb.evaluate_node(nd.clone(), vec![key.clone()])) {
                            Ok(Ok(v)) => outs.push(flat_bytes(&v)),
                            Ok(Err(e)) => return Some(("prf-error".into(), es(e))),
                            Err(pn) => return Some(("panic".into(), pn)),
                        }
                    }
                }
                for a in 0..outs.len() {
                    for b in a + 1..outs.len() {
                        let n = outs[a].len().min(outs[b].len()) / 16;
                        for blk in 0..n {
                            if outs[a][blk * 16..blk * 16 + 16] == outs[b][blk * 16..blk * 16 + 16] {
                                return Some((
                                    "related-outputs".into(),
                                    format!(
                                        "PRF outputs of type {} for two different (key, counter) pairs share the 16-byte block at offset {} (pairs #{} and #{} of keys x counters {:?})",
                                        crate::dsl::type_str(t), blk * 16, a, b, ivs
                                    ),
                                ));
                            }
                        }
                        *counters.entry("prng:block-comparisons".into()).or_insert(0) += n as u64;
                    }
                }
            }
        }
    }
    // Random / RandomPermutation nodes through an evaluator
    let ctx = create_context().ok()?;
    let g = ctx.create_graph().ok()?;
    let mut ev = SimpleEvaluator::new(Some(seed_from_u64(rng.next_u64()))).ok()?;
    for n in [1u64, 2, 3, 7, 50] {
        let node = g.random_permutation(n).ok()?;
        for _ in 0..20 {
            match guarded(|| ev.evaluate_node(node.clone(), vec![])) {
                Ok(Ok(v)) => {
                    if !is_permutation(&v, n) {
                        return Some(("not-a-permutation".into(), format!("RandomPermutation({}) is not a permutation", n)));
                    }
                    *counters.entry("prng:random-permutations".into()).or_insert(0) += 1;
                }
                Ok(Err(e)) => return Some(("prng-error".into(), es(e))),
                Err(pn) => return Some(("panic".into(), pn)),
            }
        }
    }
    None
}

pub struct PrfOut {
    pub violation: Option<PrfReplay>,
    pub stats: PrfStats,
    pub sample: Option<serde_json::Value>,
    pub hist_hash: u64,
    pub nontrivial: bool,
}

pub fn run_c15(args: &Args) -> i32 {
    let t0 = std::time::Instant::now();
    let (n, draws) = match args.tier {
        Tier::Quick => (args.cases.unwrap_or(30000), 200_000),
        Tier::Thorough => (args.cases.unwrap_or(300_000), 2_000_000),
    };
    let mut counters: BTreeMap<String, u64> = BTreeMap::new();
    // PRNG part (sequential, deterministic)
    let prng_v = prng_checks(args.seed, draws, &mut counters);
    let results = run_cases(
        n,
        args.threads,
        |r: &PrfOut| r.violation.is_some(),
        |i| {
            let mut rng = Rng::derive(args.seed, "C15", i as u64);
            let h = gen_history(&mut rng);
            let mut st = PrfStats::default();
            let v = run_history(&h, &mut st);
            let hh = crate::rng::hash_str(&serde_json::to_string(&h).unwrap_or_default());
            let nontrivial = st.cross_instance_repeats > 0;
            PrfOut {
                violation: v.map(|(class, detail)| PrfReplay { property: "C15".into(), engine: "prfsim".into(), seed: args.seed, case_index: i as u64, history: h.clone(), class, detail, minimised: false }),
                sample: if i < 2 { Some(serde_json::json!({"instances": h.instances, "keys": h.keys.len(), "triples": h.triples, "ops": h.ops})) } else { None },
                stats: st,
                hist_hash: hh,
                nontrivial,
            }
        },
    );
    let mut tot = PrfStats::default();
    let mut samples = vec![];
    let mut distinct = std::collections::BTreeSet::new();
    let mut violation = None;
    for (_, r) in &results {
        tot.evals += r.stats.evals;
        tot.repeats += r.stats.repeats;
        tot.cross_instance_repeats += r.stats.cross_instance_repeats;
        tot.restarts += r.stats.restarts;
        tot.noise += r.stats.noise;
        tot.after_restart_repeats += r.stats.after_restart_repeats;
        tot.distinct_pairs += r.stats.distinct_pairs;
        tot.stream_reuse_tests += r.stats.stream_reuse_tests;
        tot.agree_bits += r.stats.agree_bits;
        tot.total_bits += r.stats.total_bits;
        if r.nontrivial {
            distinct.insert(r.hist_hash);
        }
        if let Some(s) = &r.sample {
            samples.push(s.clone());
        }
        if violation.is_none() {
            violation = r.violation.clone();
        }
    }
    let mut code = 0;
    let mut nviol = 0;
    // bitwise agreement of unrelated outputs: 0.5 +- 8 sigma
    let mut agreement_note = String::new();
    if tot.total_bits > 10_000 {
        let p = tot.agree_bits as f64 / tot.total_bits as f64;
        let sigma = 0.5 / (tot.total_bits as f64).sqrt();
        agreement_note = format!("{:.5} over {} bits (8 sigma = {:.5})", p, tot.total_bits, 8.0 * sigma);
        if (p - 0.5).abs() > 8.0 * sigma + 0.002 && violation.is_none() && prng_v.is_none() {
            violation = Some(PrfReplay {
                property: "C15".into(),
                engine: "prfsim".into(),
                seed: args.seed,
                case_index: u64::MAX,
                history: PrfHistory { instances: 0, keys: vec![], triples: vec![], ops: vec![], inst_seeds: vec![] },
                class: "related-outputs".into(),
                detail: format!("outputs for different (key, counter) agree bitwise with frequency {}", agreement_note),
                minimised: true,
            });
        }
    }
    if let Some((class, detail)) = prng_v {
        nviol = 1;
        let doc = serde_json::json!({"property": "C15", "engine": "prfsim/prng", "seed": args.seed, "class": class, "detail": detail, "draws": draws});
        match write_replay(&args.replay_dir, &format!("C15-{}-prng", args.seed), &doc) {
            Ok(path) => {
                println!("VIOLATION property=C15 replay={}", path);
                println!("  class={} detail={}", class, detail);
            }
            Err(e) => {
                eprintln!("cannot write replay: {}", e);
                return 2;
            }
        }
        code = 1;
    } else if let Some(v) = violation {
        nviol = 1;
        let v = if v.case_index != u64::MAX { minimise(v) } else { v };
        match write_replay(&args.replay_dir, &format!("C15-{}-{}", args.seed, v.case_index), &serde_json::to_value(&v).unwrap()) {
            Ok(path) => {
                println!("VIOLATION property=C15 replay={}", path);
                println!("  class={} detail={}", v.class, v.detail);
            }
            Err(e) => {
                eprintln!("cannot write replay: {}", e);
                return 2;
            }
        }
        code = 1;
    }
    let wall = t0.elapsed().as_secs_f64();
    if samples.is_empty() {
        samples.push(serde_json::json!({"note": "no history completed"}));
    }
    let ev = EvidenceOut {
        args,
        level: "exploration",
        rule: "histories = seeded interleavings (6..45 operations) of PRF / PermutationFromPRF evaluations drawn from a pool of (key, counter, type) triples (scalars of all 11 types, arrays crossing the 64- and 512-byte buffer sizes, ragged bit arrays, nested containers), unrelated Random draws and instance restarts over 2..4 SimpleEvaluator instances sharing keys; model = memo table. distinct_nontrivial = distinct histories in which some triple was evaluated at two different instances. Plus PRNG: seeded call sequences replayed from the seed, bounded draws for moduli {1,2,3,5,6,7,10,2^31+1,2^63+1} in range and chi-square uniform (conservative threshold), RandomPermutation validity".into(),
        evaluations: tot.evals.max(1),
        distinct_nontrivial: distinct.len() as u64,
        samples,
        extra: serde_json::json!({
            "histories": results.len(),
            "prf_evaluations": tot.evals,
            "repeated_evaluations_checked_against_memo": tot.repeats,
            "of_which_at_another_instance": tot.cross_instance_repeats,
            "of_which_after_a_restart": tot.after_restart_repeats,
            "faults_fired": {"restart": tot.restarts, "noise-draws-between-prf-calls": tot.noise, "interleaving-across-instances": tot.cross_instance_repeats},
            "unrelated_output_pairs_compared": tot.distinct_pairs,
            "stream_reuse_tests(shifted-copy detector on successive draws, PRF pairs and single values)": tot.stream_reuse_tests,
            "bitwise_agreement_of_unrelated_outputs": agreement_note,
            "prng": counters,
            "histories_per_hour": if wall > 0.0 { (results.len() as f64 / wall * 3600.0) as u64 } else { 0 },
            "components": {"real": ["SimpleEvaluator PRF/PermutationFromPRF/Random/RandomPermutation evaluation", "Prf, PrfSession, PRNG (random.rs)"], "stub": ["scheduler interleaving calls across instances", "memo-table model", "encoding validator"]}
        }),
        assumptions: vec!["the memo table (first observed value per triple) is the reference: purity is checked as self-consistency across instances, orders and restarts".into(), "statistical checks use thresholds with false-alarm probability < e^-40 per test".into()],
        wall_s: wall,
        violations: nviol,
        exhaustive: false,
    };
    if let Err(e) = write_evidence(ev) {
        eprintln!("cannot write evidence: {}", e);
        return 2;
    }
    println!("[C15] tier={} seed={} histories={} prf_evals={} cross_instance_repeats={} wall={:.1}s", args.tier.name(), args.seed, results.len(), tot.evals, tot.cross_instance_repeats, wall);
    code
}

pub fn replay_cmd(path: &str) -> i32 {
    let s = match std::fs::read_to_string(path) {
        Ok(s) => s,
        Err(e) => {
            eprintln!("cannot read {}: {}", path, e);
            return 2;
        }
    };
    let j: serde_json::Value = match serde_json::from_str(&s) {
        Ok(j) => j,
        Err(e) => {
            eprintln!("cannot parse: {}", e);
            return 2;
        }
    };
    if j.get("engine").and_then(|e| e.as_str()) == Some("prfsim/prng") {
        let seed = j.get("seed").and_then(|x| x.as_u64()).unwrap_or(0);
        let draws = j.get("draws").and_then(|x| x.as_u64()).unwrap_or(200_000) as usize;
        let mut c = BTreeMap::new();
        return match prng_checks(seed, draws, &mut c) {
            Some((class, detail)) => {
                println!("VIOLATION property=C15 replay={}", path);
                println!("  class={} detail={}", class, detail);
                1
            }
            None => {
                println!("replay {}: no violation reproduced", path);
                0
            }
        };
    }
    let rp: PrfReplay = match serde_json::from_value(j) {
        Ok(r) => r,
        Err(e) => {
            eprintln!("cannot parse replay: {}", e);
            return 2;
        }
    };
    let mut st = PrfStats::default();
    match run_history(&rp.history, &mut st) {
        Some((class, detail)) => {
            println!("VIOLATION property=C15 replay={}", path);
            println!("  class={} detail={}", class, detail);
            1
        }
        None => {
            println!("replay {}: no violation reproduced (recorded: {})", path, rp.class);
            0
        }
    }
}

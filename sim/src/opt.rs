//! C06 (optimiser preserves meaning and interface, decided by twin runs of the unoptimised and the
//! optimised context under the same tapes/junk/inputs) and C04 (PRF counters fresh, randomising
//! nodes neither folded, merged nor duplicated), on compiler output and on generated inlined graphs.

use crate::dsl::{es, GraphD, Prog, Step};
use crate::exec::{Case, Inline, JunkKind, JunkPlan, Owner, Violation};
use crate::gen::{gen_case, GenCfg};
use crate::harness::{run_cases, stats_json, write_evidence, write_replay, Args, EvidenceOut, Stats, Tier};
use crate::rng::{Chooser, Rng};
use crate::trisim::{guarded, Delivery, GraphView, Policy, RunCfg, RunResult, Sim, Status, PV};
use ciphercore_base::custom_ops::ContextMappings;
use ciphercore_base::data_types::{array_type, Type, BIT};
use ciphercore_base::evaluators::simple_evaluator::SimpleEvaluator;
use ciphercore_base::graphs::{Context, NodeAnnotation, Operation};
use ciphercore_base::mpc::mpc_compiler::{prepare_context, prepare_for_mpc_evaluation, IOStatus};
use ciphercore_base::optimizer::optimize::optimize_context;
use serde::{Deserialize, Serialize};
use std::collections::{BTreeMap, BTreeSet};

#[derive(Clone, Debug, Serialize, Deserialize)]
pub struct OptReplay {
    pub property: String,
    pub engine: String,
    pub seed: u64,
    pub case_index: u64,
    /// "compiled" = U is the unoptimised compiler output; "plain" = U is a generated inlined graph
    pub kind: String,
    pub case: Case,
    pub run_seed: u64,
    pub violation: Violation,
    #[serde(default)]
    pub program_summary: String,
}

pub struct Twin {
    pub u: Context,
    pub o: Context,
    pub mapping: ContextMappings,
    /// plain kind: number of randomising nodes the inlined graph must contain (every inlined copy draws afresh)
    pub expected_random: Option<usize>,
}

fn fixed_eval() -> ciphercore_base::errors::Result<SimpleEvaluator> {
    SimpleEvaluator::new(Some([7u8; 16]))
}

/// U = compiler output before the final optimisation round; O = optimize_context(U).
pub fn compiled_twin(case: &Case) -> Result<Option<Twin>, String> {
    let built = match case.prog.build() {
        Ok(b) => b,
        Err(_) => return Ok(None),
    };
    let cfg = case.inline.config();
    let owners: Vec<IOStatus> = case.owners.iter().map(|o| o.to_io()).collect();
    let outs: Vec<IOStatus> = case.outputs.iter().map(|p| IOStatus::Party(*p as u64)).collect();
    let src = built.context.clone();
    let r = guarded(move || -> ciphercore_base::errors::Result<Twin> {
        let c4 = prepare_context(src, cfg.clone(), fixed_eval()?, false)?;
        let u = prepare_for_mpc_evaluation(&c4.get_context(), vec![owners], vec![outs], cfg)?.get_context();
        let m = optimize_context(&u, fixed_eval()?)?;
        Ok(Twin { u, o: m.get_context(), mapping: m.mappings.clone(), expected_random: None })
    });
    match r {
        Err(p) => Err(format!("panic: {}", p)),
        Ok(Err(_)) => Ok(None),
        Ok(Ok(t)) => Ok(Some(t)),
    }
}

/// Decorate a program (single main graph, no helpers) with the things the optimiser must treat
/// carefully: Random/PRF nodes, annotated NOPs, duplicated sub-expressions, foldable constants,
/// dangling nodes.
/// Helper graphs (Call targets / Iterate bodies) get a Random node added to their result, so that every
/// inlined copy must draw afresh.
pub fn decorate_helpers(prog: &mut Prog, rng: &mut Rng) {
    let n = prog.graphs.len();
    if n < 2 {
        return;
    }
    let built = match prog.build() {
        Ok(b) => b,
        Err(_) => return,
    };
    for gi in 0..n - 1 {
        if !rng.chance(2, 3) {
            continue;
        }
        let types: Vec<Option<Type>> = built.nodes[gi].iter().map(|x| x.get_type().ok()).collect();
        let g = &mut prog.graphs[gi];
        let out = g.output;
        let is_leaf = |t: &Option<Type>| matches!(t, Some(Type::Array(_, _)) | Some(Type::Scalar(_)));
        if is_leaf(&types[out]) {
            // plain callee: result + Random
            let t = types[out].clone().unwrap();
            let base = g.steps.len();
            g.steps.push(Step { op: Operation::Random(t), deps: vec![], gdeps: vec![] });
            g.steps.push(Step { op: Operation::Add, deps: vec![out, base], gdeps: vec![] });
            g.output = base + 1;
        } else if matches!(g.steps[out].op, Operation::CreateTuple) && g.steps[out].deps.len() == 2 {
            // iterate body (new state, output): new state + Random
            let (ns, outv) = (g.steps[out].deps[0], g.steps[out].deps[1]);
            if is_leaf(&types[ns]) {
                let t = types[ns].clone().unwrap();
                let base = g.steps.len();
                g.steps.push(Step { op: Operation::Random(t), deps: vec![], gdeps: vec![] });
                g.steps.push(Step { op: Operation::Add, deps: vec![ns, base], gdeps: vec![] });
                g.steps.push(Step { op: Operation::CreateTuple, deps: vec![base + 1, if outv == ns { base + 1 } else { outv }], gdeps: vec![] });
                g.output = base + 2;
            }
        }
    }
}

/// Number of randomising nodes the fully inlined main graph must contain: every inlined copy of a body
/// draws afresh. None if some graph carries an annotation that selects a depth-optimised iterate strategy.
pub fn expected_random_nodes(ctx: &Context) -> Option<usize> {
    let graphs = ctx.get_graphs();
    let mut count = vec![0usize; graphs.len()];
    for (gi, g) in graphs.iter().enumerate() {
        if !g.get_annotations().ok()?.is_empty() {
            return None;
        }
        let mut c = 0usize;
        for n in g.get_nodes() {
            let op = n.get_operation();
            match op {
                Operation::Call => c += count[n.get_graph_dependencies()[0].get_id() as usize],
                Operation::Iterate => {
                    let len = match n.get_node_dependencies()[1].get_type().ok()? {
                        Type::Vector(l, _) => l as usize,
                        _ => return None,
                    };
                    c += len * count[n.get_graph_dependencies()[0].get_id() as usize];
                }
                Operation::Custom(_) => return None,
                o => {
                    if is_rand_or_prf(&o) {
                        c += 1;
                    }
                }
            }
        }
        count[gi] = c;
    }
    let main = ctx.get_main_graph().ok()?.get_id() as usize;
    Some(count[main])
}

pub fn decorate(prog: &mut Prog, rng: &mut Rng) {
    // types of existing steps are not known here; build to learn them
    let types: Vec<Option<Type>> = match prog.build() {
        Ok(b) => b.nodes.last().map(|ns| ns.iter().map(|n| n.get_type().ok()).collect()).unwrap_or_default(),
        Err(_) => return,
    };
    let g: &mut GraphD = prog.main_mut();
    let arrays: Vec<usize> = (0..types.len()).filter(|i| matches!(types[*i], Some(Type::Array(_, _)) | Some(Type::Scalar(_)))).collect();
    let mut keep: Vec<usize> = vec![g.output];
    let n_dec = 2 + rng.usize_below(6);
    for _ in 0..n_dec {
        let base = g.steps.len();
        match rng.below(15) {
            13 | 14 if !arrays.is_empty() => {
                // vector of arrays turned into an array and indexed with several coordinates (meta-operation pass)
                let a = *rng.pick(&arrays);
                let t = types[a].clone().unwrap();
                if let Type::Array(sh, _) = &t {
                    let same: Vec<usize> = arrays.iter().cloned().filter(|i| types[*i].as_ref() == Some(&t)).collect();
                    let b = *rng.pick(&same);
                    g.steps.push(Step { op: Operation::CreateVector(t.clone()), deps: vec![a, b], gdeps: vec![] });
                    g.steps.push(Step { op: Operation::VectorToArray, deps: vec![base], gdeps: vec![] });
                    let mut idx = vec![rng.below(2)];
                    let extra = rng.usize_below(sh.len() + 1);
                    for d in sh.iter().take(extra) {
                        idx.push(rng.below(*d));
                    }
                    g.steps.push(Step { op: Operation::Get(idx), deps: vec![base + 1], gdeps: vec![] });
                    g.steps.push(Step { op: Operation::ArrayToVector, deps: vec![base + 1], gdeps: vec![] });
                    g.steps.push(Step { op: Operation::Constant(ciphercore_base::data_types::scalar_type(ciphercore_base::data_types::UINT64), crate::vals::enc(&[rng.below(2) as u128], ciphercore_base::data_types::UINT64)), deps: vec![], gdeps: vec![] });
                    g.steps.push(Step { op: Operation::VectorGet, deps: vec![base + 3, base + 4], gdeps: vec![] });
                    keep.push(base + 2);
                    keep.push(base + 5);
                }
            }
            7 => {
                // both operand orders of a non-commutative product of non-constant matrices
                let st = *rng.pick(&[ciphercore_base::data_types::UINT8, ciphercore_base::data_types::INT32, ciphercore_base::data_types::UINT64]);
                let mt = array_type(vec![2, 2], st);
                g.steps.push(Step { op: Operation::Random(mt.clone()), deps: vec![], gdeps: vec![] });
                g.steps.push(Step { op: Operation::Random(mt), deps: vec![], gdeps: vec![] });
                let op = if rng.chance(1, 2) { Operation::Dot } else { Operation::Matmul };
                g.steps.push(Step { op: op.clone(), deps: vec![base, base + 1], gdeps: vec![] });
                g.steps.push(Step { op, deps: vec![base + 1, base], gdeps: vec![] });
                g.steps.push(Step { op: Operation::Subtract, deps: vec![base, base + 1], gdeps: vec![] });
                g.steps.push(Step { op: Operation::Subtract, deps: vec![base + 1, base], gdeps: vec![] });
                keep.push(base + 2);
                keep.push(base + 3);
                keep.push(base + 4);
                keep.push(base + 5);
            }
            8 => {
                // a Send marker on a getter that the meta-operation pass resolves through its tuple
                let i = rng.usize_below(g.steps.len());
                let j = rng.usize_below(g.steps.len());
                g.steps.push(Step { op: Operation::CreateTuple, deps: vec![i, j], gdeps: vec![] });
                g.steps.push(Step { op: Operation::TupleGet(rng.below(2)), deps: vec![base], gdeps: vec![] });
                // the marker sits on a NOP behind the getter: the property quantifies over annotated NOPs (the only
                // place the compiler puts Send markers). A marker on the getter itself is outside it: the unchanged
                // optimiser moves such a marker onto the resolved element node, which other users share.
                let (s, r) = (rng.below(3), rng.below(3));
                // one time in three (coin from a copy of the stream, so that all other cases of a seed stay as they
                // were) the marker sits on the getter itself. Only the static promises are decided for such a graph
                // (check_case): the marker must stay on the image of the node that carried it.
                let on_getter = {
                    let mut r2 = rng.clone();
                    r2.below(3) == 0
                };
                if on_getter {
                    g.node_annotations.push((base + 1, NodeAnnotation::Send(s, r)));
                    keep.push(base + 1);
                } else {
                    g.steps.push(Step { op: Operation::NOP, deps: vec![base + 1], gdeps: vec![] });
                    g.node_annotations.push((base + 2, NodeAnnotation::Send(s, r)));
                    keep.push(base + 2);
                }
            }
            9 if !arrays.is_empty() => {
                // constants with identical bytes but different shape / signedness feeding non-foldable nodes
                let st = *rng.pick(&[ciphercore_base::data_types::UINT32, ciphercore_base::data_types::UINT8]);
                let st_signed = if st == ciphercore_base::data_types::UINT32 { ciphercore_base::data_types::INT32 } else { ciphercore_base::data_types::INT8 };
                let m = crate::vals::st_mask(st);
                let vals = [m, 2u128];
                g.steps.push(Step { op: Operation::Constant(array_type(vec![2], st), crate::vals::enc(&vals, st)), deps: vec![], gdeps: vec![] });
                g.steps.push(Step { op: Operation::Constant(array_type(vec![2, 1], st), crate::vals::enc(&vals, st)), deps: vec![], gdeps: vec![] });
                g.steps.push(Step { op: Operation::Constant(array_type(vec![2], st_signed), crate::vals::enc(&vals, st_signed)), deps: vec![], gdeps: vec![] });
                g.steps.push(Step { op: Operation::Random(array_type(vec![2, 2], st)), deps: vec![], gdeps: vec![] });
                g.steps.push(Step { op: Operation::Random(array_type(vec![2], st_signed)), deps: vec![], gdeps: vec![] });
                g.steps.push(Step { op: Operation::Add, deps: vec![base + 3, base], gdeps: vec![] });
                g.steps.push(Step { op: Operation::Add, deps: vec![base + 3, base + 1], gdeps: vec![] });
                g.steps.push(Step { op: Operation::Truncate(2), deps: vec![base + 2], gdeps: vec![] });
                g.steps.push(Step { op: Operation::Multiply, deps: vec![base + 4, base + 2], gdeps: vec![] });
                keep.push(base + 5);
                keep.push(base + 6);
                keep.push(base + 7);
                keep.push(base + 8);
            }
            10 => {
                // two independent random permutations of the same size
                let n = 2 + rng.below(5);
                g.steps.push(Step { op: Operation::RandomPermutation(n), deps: vec![], gdeps: vec![] });
                g.steps.push(Step { op: Operation::RandomPermutation(n), deps: vec![], gdeps: vec![] });
                g.steps.push(Step { op: Operation::CreateTuple, deps: vec![base, base + 1], gdeps: vec![] });
                keep.push(base + 2);
            }
            11 => {
                // randomising operations whose arguments are compile-time constants
                let u64t = ciphercore_base::data_types::UINT64;
                if rng.chance(1, 2) {
                    let vals = [0u128, u64::MAX as u128, 1, u64::MAX as u128, u64::MAX as u128];
                    g.steps.push(Step { op: Operation::Constant(array_type(vec![5], u64t), crate::vals::enc(&vals, u64t)), deps: vec![], gdeps: vec![] });
                    g.steps.push(Step { op: Operation::CuckooToPermutation, deps: vec![base], gdeps: vec![] });
                } else {
                    let vals = [0u128, 0, 2, 2];
                    g.steps.push(Step { op: Operation::Constant(array_type(vec![4], u64t), crate::vals::enc(&vals, u64t)), deps: vec![], gdeps: vec![] });
                    g.steps.push(Step { op: Operation::DecomposeSwitchingMap(4), deps: vec![base], gdeps: vec![] });
                }
                keep.push(base + 1);
            }
            12 => {
                // commuted copy of an existing binary step
                let cands: Vec<usize> = (0..g.steps.len())
                    .filter(|i| matches!(g.steps[*i].op, Operation::Add | Operation::Subtract | Operation::Multiply) && g.steps[*i].deps.len() == 2 && g.steps[*i].deps[0] != g.steps[*i].deps[1])
                    .collect();
                if cands.is_empty() {
                    continue;
                }
                let i = *rng.pick(&cands);
                let mut st = g.steps[i].clone();
                st.deps.swap(0, 1);
                g.steps.push(st);
                keep.push(base);
                keep.push(i);
            }
            0 if !arrays.is_empty() => {
                // Random added to a value
                let a = *rng.pick(&arrays);
                let t = types[a].clone().unwrap();
                g.steps.push(Step { op: Operation::Random(t), deps: vec![], gdeps: vec![] });
                g.steps.push(Step { op: Operation::Add, deps: vec![a, base], gdeps: vec![] });
                keep.push(base + 1);
            }
            1 if !arrays.is_empty() => {
                // key -> sent NOP -> two PRF nodes with the same counter, and one with another counter
                let a = *rng.pick(&arrays);
                let t = types[a].clone().unwrap();
                g.steps.push(Step { op: Operation::Random(array_type(vec![128], BIT)), deps: vec![], gdeps: vec![] });
                g.steps.push(Step { op: Operation::NOP, deps: vec![base], gdeps: vec![] });
                let (s, r) = (rng.below(3), rng.below(3));
                g.node_annotations.push((base + 1, NodeAnnotation::Send(s, r)));
                let iv = rng.below(3);
                g.steps.push(Step { op: Operation::PRF(iv, t.clone()), deps: vec![base + 1], gdeps: vec![] });
                g.steps.push(Step { op: Operation::PRF(iv, t.clone()), deps: vec![base + 1], gdeps: vec![] });
                g.steps.push(Step { op: Operation::PRF(iv + 1, t), deps: vec![base + 1], gdeps: vec![] });
                g.steps.push(Step { op: Operation::Subtract, deps: vec![base + 2, base + 3], gdeps: vec![] });
                g.steps.push(Step { op: Operation::Add, deps: vec![base + 5, base + 4], gdeps: vec![] });
                g.steps.push(Step { op: Operation::Add, deps: vec![base + 6, a], gdeps: vec![] });
                keep.push(base + 7);
            }
            2 => {
                // duplicate an existing non-input step, and annotated / plain NOP copies of one value
                let cands: Vec<usize> = (0..g.steps.len()).filter(|i| !matches!(g.steps[*i].op, Operation::Input(_))).collect();
                if cands.is_empty() {
                    continue;
                }
                let i = *rng.pick(&cands);
                let st = g.steps[i].clone();
                g.steps.push(st.clone());
                g.steps.push(st);
                keep.push(base);
                keep.push(base + 1);
            }
            3 => {
                let i = rng.usize_below(g.steps.len());
                g.steps.push(Step { op: Operation::NOP, deps: vec![i], gdeps: vec![] });
                g.steps.push(Step { op: Operation::NOP, deps: vec![i], gdeps: vec![] });
                g.steps.push(Step { op: Operation::NOP, deps: vec![i], gdeps: vec![] });
                let (s, r) = (rng.below(3), rng.below(3));
                g.node_annotations.push((base, NodeAnnotation::Send(s, r)));
                g.node_annotations.push((base + 1, NodeAnnotation::Send(s, r)));
                keep.push(base);
                keep.push(base + 1);
                keep.push(base + 2);
            }
            4 if !arrays.is_empty() => {
                // foldable constants, one of them behind an annotated NOP
                let a = *rng.pick(&arrays);
                let t = types[a].clone().unwrap();
                g.steps.push(Step { op: Operation::Ones(t.clone()), deps: vec![], gdeps: vec![] });
                g.steps.push(Step { op: Operation::Add, deps: vec![base, base], gdeps: vec![] });
                g.steps.push(Step { op: Operation::NOP, deps: vec![base + 1], gdeps: vec![] });
                if rng.chance(1, 2) {
                    g.node_annotations.push((base + 2, NodeAnnotation::Send(rng.below(3), rng.below(3))));
                }
                g.steps.push(Step { op: Operation::Add, deps: vec![base + 2, a], gdeps: vec![] });
                keep.push(base + 3);
            }
            5 => {
                // tuple plumbing over existing values (meta-operation optimiser)
                let i = rng.usize_below(g.steps.len());
                let j = rng.usize_below(g.steps.len());
                g.steps.push(Step { op: Operation::CreateTuple, deps: vec![i, j], gdeps: vec![] });
                g.steps.push(Step { op: Operation::TupleGet(rng.below(2)), deps: vec![base], gdeps: vec![] });
                keep.push(base + 1);
            }
            _ => {
                // dangling node
                let i = rng.usize_below(g.steps.len());
                g.steps.push(Step { op: Operation::NOP, deps: vec![i], gdeps: vec![] });
                if rng.chance(1, 2) {
                    g.node_annotations.push((base, NodeAnnotation::Send(rng.below(3), rng.below(3))));
                }
            }
        }
    }
    rng.shuffle(&mut keep);
    keep.truncate(8);
    keep.sort();
    keep.dedup();
    let out = g.steps.len();
    g.steps.push(Step { op: Operation::CreateTuple, deps: keep, gdeps: vec![] });
    g.output = out;
}

pub fn plain_twin(case: &Case) -> Result<Option<Twin>, String> {
    let built = match case.prog.build() {
        Ok(b) => b,
        Err(e) => {
            if std::env::var("VERIF_DEBUG").is_ok() {
                eprintln!("plain twin build failed: {}", e);
            }
            return Ok(None);
        }
    };
    let src = built.context.clone();
    let cfg = case.inline.config();
    let r = guarded(move || -> ciphercore_base::errors::Result<Twin> {
        let expected_random = expected_random_nodes(&src);
        let inst = ciphercore_base::custom_ops::run_instantiation_pass(src)?.get_context();
        let u = ciphercore_base::inline::inline_ops::inline_operations(&inst, cfg)?.get_context();
        let m = optimize_context(&u, fixed_eval()?)?;
        Ok(Twin { u, o: m.get_context(), mapping: m.mappings.clone(), expected_random })
    });
    match r {
        Err(p) => Err(format!("panic: {}", p)),
        Ok(Err(e)) => {
            if std::env::var("VERIF_DEBUG").is_ok() {
                eprintln!("plain twin skipped: {}", es(e));
            }
            Ok(None)
        }
        Ok(Ok(t)) => Ok(Some(t)),
    }
}

fn is_rand_or_prf(op: &Operation) -> bool {
    matches!(
        op,
        Operation::Random(_) | Operation::RandomPermutation(_) | Operation::CuckooToPermutation | Operation::DecomposeSwitchingMap(_) | Operation::PRF(_, _) | Operation::PermutationFromPRF(_, _)
    )
}

pub struct TwinViews {
    pub gu: GraphView,
    pub go: GraphView,
    /// U node id -> O node id
    pub map: Vec<Option<usize>>,
    /// U nodes whose image belongs to a graph that no longer exists
    pub dead: Vec<usize>,
}

pub fn views(t: &Twin) -> Result<TwinViews, String> {
    let mu = t.u.get_main_graph().map_err(es)?;
    let mo = t.o.get_main_graph().map_err(es)?;
    let gu = GraphView::new(&mu)?;
    let go = GraphView::new(&mo)?;
    let mut map = vec![None; gu.nodes.len()];
    let mut dead: Vec<usize> = vec![];
    for (i, n) in gu.nodes.iter().enumerate() {
        if t.mapping.contains_node(&n.node) {
            let m = t.mapping.get_node(&n.node);
            // the image must be a node of a live graph (Node::get_graph panics for a node whose graph was dropped)
            match guarded(|| m.get_graph()) {
                Ok(g) => {
                    if g == mo {
                        map[i] = Some(m.get_id() as usize);
                    }
                }
                Err(_) => dead.push(i),
            }
        }
    }
    Ok(TwinViews { gu, go, map, dead })
}

/// Static C04 checks on (U, O, mapping).
pub fn c04_static(tv: &TwinViews, compiler_output: bool, stats: &mut Stats) -> Option<Violation> {
    // counters pairwise distinct in the final graph
    let mut seen: BTreeMap<u64, usize> = BTreeMap::new();
    let mut seen_u0: BTreeSet<u64> = BTreeSet::new();
    let mut u_distinct = true;
    for n in tv.gu.nodes.iter() {
        if let Operation::PRF(iv, _) | Operation::PermutationFromPRF(iv, _) = &n.op {
            if !seen_u0.insert(*iv) {
                u_distinct = false;
            }
        }
    }
    for (i, n) in tv.go.nodes.iter().enumerate() {
        if !u_distinct && !compiler_output {
            // a hand-made input graph that already repeats a counter: only "stay distinct" applies
            break;
        }
        if let Operation::PRF(iv, _) | Operation::PermutationFromPRF(iv, _) = &n.op {
            if let Some(j) = seen.insert(*iv, i) {
                return Some(Violation { class: "duplicate-prf-counter".into(), detail: format!("optimised graph: PRF nodes {} and {} carry the same counter {}", j, i, iv) });
            }
            stats.probe("c04:prf-nodes-checked", 1);
        }
    }
    let mut seen_u: BTreeMap<u64, usize> = BTreeMap::new();
    let mut u_all_distinct = true;
    for (i, n) in tv.gu.nodes.iter().enumerate() {
        if let Operation::PRF(iv, _) | Operation::PermutationFromPRF(iv, _) = &n.op {
            if seen_u.insert(*iv, i).is_some() {
                u_all_distinct = false;
            }
        }
    }
    let _ = u_all_distinct;
    // mapping on randomising / PRF nodes: image has the identical operation, injective
    let mut image: BTreeMap<usize, usize> = BTreeMap::new();
    for (i, n) in tv.gu.nodes.iter().enumerate() {
        if !is_rand_or_prf(&n.op) {
            continue;
        }
        if let Some(m) = tv.map[i] {
            let om = &tv.go.nodes[m];
            if om.op != n.op {
                return Some(Violation {
                    class: "random-node-rewritten".into(),
                    detail: format!("node {} ({}) is mapped to node {} which is {} (a node that draws randomness / evaluates a PRF must keep its operation)", i, n.op, m, om.op),
                });
            }
            if let Some(j) = image.insert(m, i) {
                return Some(Violation {
                    class: "random-nodes-merged".into(),
                    detail: format!("nodes {} and {} ({}) are both mapped to node {}: two draws were merged into one", j, i, n.op, m),
                });
            }
            stats.probe("c04:random-or-prf-nodes-mapped", 1);
        } else {
            stats.probe("c04:random-or-prf-nodes-dropped", 1);
        }
    }
    // every randomising/PRF node of O has exactly one preimage
    for (m, n) in tv.go.nodes.iter().enumerate() {
        if is_rand_or_prf(&n.op) && !image.contains_key(&m) {
            return Some(Violation { class: "random-node-duplicated".into(), detail: format!("optimised node {} ({}) is not the image of any original randomising/PRF node", m, n.op) });
        }
    }
    // dropped randomising nodes must not be needed by the output (their value cannot reach it)
    let cone = cone_of(&tv.gu, tv.gu.output);
    for (i, n) in tv.gu.nodes.iter().enumerate() {
        if is_rand_or_prf(&n.op) && tv.map[i].is_none() && cone.contains(&i) {
            // allowed only if every path to the output passes through nodes that were folded... which
            // cannot be for a random value; the twin run decides. Count it.
            stats.probe("c04:dropped-random-node-in-output-cone", 1);
        }
    }
    // key provenance in O: the key operand of a PRF descends through NOP/tuple plumbing from Random or Input
    for (m, n) in tv.go.nodes.iter().enumerate() {
        if let Operation::PRF(_, _) | Operation::PermutationFromPRF(_, _) = &n.op {
            let mut cur = n.deps[0];
            let mut steps = 0;
            loop {
                steps += 1;
                let c = &tv.go.nodes[cur];
                match &c.op {
                    Operation::Random(_) | Operation::Input(_) => break,
                    Operation::NOP | Operation::TupleGet(_) | Operation::NamedTupleGet(_) | Operation::VectorGet => cur = c.deps[0],
                    Operation::CreateTuple | Operation::CreateNamedTuple(_) | Operation::CreateVector(_) => {
                        // follow all elements conservatively: every element must be a key source
                        if c.deps.is_empty() {
                            break;
                        }
                        cur = c.deps[0];
                    }
                    Operation::Constant(_, _) | Operation::Zeros(_) | Operation::Ones(_) => {
                        return Some(Violation { class: "prf-key-is-constant".into(), detail: format!("PRF node {} takes its key from a constant node {} ({})", m, cur, c.op) });
                    }
                    _ => break,
                }
                if steps > 64 {
                    break;
                }
            }
            stats.probe("c04:key-provenance-checked", 1);
        }
    }
    None
}

pub fn cone_of(gv: &GraphView, root: usize) -> BTreeSet<usize> {
    let mut seen = BTreeSet::new();
    let mut stack = vec![root];
    while let Some(x) = stack.pop() {
        if seen.insert(x) {
            for d in &gv.nodes[x].deps {
                stack.push(*d);
            }
        }
    }
    seen
}

/// Static C06 interface checks.
pub fn c06_static(t: &Twin, tv: &TwinViews) -> Option<Violation> {
    // every node the mapping still maps goes to a live node of the optimised graph
    if let Some(i) = tv.dead.first() {
        return Some(Violation {
            class: "mapped-to-dead-node".into(),
            detail: format!("original node {} ({}) is mapped to a node of a graph that no longer exists ({} such nodes): the mapping keeps images of an intermediate pass", i, tv.gu.nodes[*i].op, tv.dead.len()),
        });
    }
    // inputs preserved: number, order, type, name
    if tv.gu.inputs.len() != tv.go.inputs.len() {
        return Some(Violation { class: "inputs-changed".into(), detail: format!("{} input nodes before, {} after optimisation", tv.gu.inputs.len(), tv.go.inputs.len()) });
    }
    for (a, b) in tv.gu.inputs.iter().zip(tv.go.inputs.iter()) {
        let (na, nb) = (&tv.gu.nodes[*a], &tv.go.nodes[*b]);
        if na.op != nb.op {
            return Some(Violation { class: "inputs-changed".into(), detail: format!("input {} has type {} before and {} after", a, na.op, nb.op) });
        }
        let (xa, xb) = (na.node.get_name().ok().flatten(), nb.node.get_name().ok().flatten());
        if xa != xb {
            return Some(Violation { class: "inputs-changed".into(), detail: format!("input {} is named {:?} before and {:?} after", a, xa, xb) });
        }
        if tv.map[*a] != Some(*b) {
            return Some(Violation { class: "inputs-changed".into(), detail: format!("input {} is mapped to {:?}, expected input node {}", a, tv.map[*a], b) });
        }
    }
    // a Send marker of a node that survives optimisation stays on its image (the image may carry more)
    for (i, m) in tv.map.iter().enumerate() {
        if let Some(m) = m {
            let (su, so) = (&tv.gu.nodes[i].sends, &tv.go.nodes[*m].sends);
            if !su.is_empty() && !su.iter().all(|x| so.contains(x)) {
                return Some(Violation {
                    class: "send-marker-lost".into(),
                    detail: format!("original node {} ({}) carries Send markers {:?}; its image {} ({}) carries {:?}", i, tv.gu.nodes[i].op, su, m, tv.go.nodes[*m].op, so),
                });
            }
        }
    }
    // recorded types equal the types that type inference re-derives after a reload
    let s = match guarded(|| serde_json::to_string(&t.o)) {
        Ok(Ok(s)) => s,
        _ => return Some(Violation { class: "optimised-context-not-serialisable".into(), detail: "to_string failed".into() }),
    };
    let re: Context = match guarded(|| serde_json::from_str::<Context>(&s)) {
        Ok(Ok(c)) => c,
        Ok(Err(e)) => return Some(Violation { class: "optimised-context-not-reloadable".into(), detail: format!("the optimised context cannot be reloaded: {}", e) }),
        Err(p) => return Some(Violation { class: "optimised-context-not-reloadable".into(), detail: format!("reload panicked: {}", p) }),
    };
    for (g1, g2) in t.o.get_graphs().iter().zip(re.get_graphs().iter()) {
        for (n1, n2) in g1.get_nodes().iter().zip(g2.get_nodes().iter()) {
            match (n1.get_type(), n2.get_type()) {
                (Ok(a), Ok(b)) if a == b => {}
                (a, b) => {
                    return Some(Violation {
                        class: "recorded-type-differs-from-inferred".into(),
                        detail: format!("optimised node ({},{}) {}: recorded type {:?}, type inference derives {:?}", g1.get_id(), n1.get_id(), n1.get_operation(), a.map_err(es), b.map_err(es)),
                    })
                }
            }
        }
    }
    None
}

/// Per-party comparison of a mapped pair. Poison ("this party does not hold this", or an evaluation error on junk)
/// is not a value: how far it spreads depends on the shape of the graph (a Zip of a poisoned column is poisoned as
/// a whole, the element the optimiser resolves it to is not), so a pair is compared only when both sides are fully
/// defined. Returns None when not comparable.
fn pv_eq(a: &Option<PV>, b: &Option<PV>) -> Option<bool> {
    match (a, b) {
        (Some(x), Some(y)) => {
            if x.has_poison() || y.has_poison() {
                None
            } else {
                Some(x.same(y))
            }
        }
        (None, None) => Some(true),
        _ => Some(false),
    }
}

pub struct TwinRunOut {
    pub ru: RunResult,
    pub ro: RunResult,
}

/// Dynamic twin run: same inputs, junk, tapes (addressed by original node identity) and policy.
pub fn twin_run(tv: &TwinViews, inputs: &[Vec<PV>], base: &RunCfg, sched_seed: u64, stats: &mut Stats) -> Result<TwinRunOut, Violation> {
    let mut cfg = base.clone();
    cfg.addressed = true;
    cfg.keep_values = true;
    cfg.restart_pm = 0;
    // address of an optimised node = id of its (unique) original preimage
    let mut addr_o: BTreeMap<usize, u64> = BTreeMap::new();
    for (i, n) in tv.gu.nodes.iter().enumerate() {
        if n.is_randomizing() {
            if let Some(m) = tv.map[i] {
                addr_o.entry(m).or_insert(i as u64);
            }
        }
    }
    let fo = move |m: usize| -> u64 { addr_o.get(&m).cloned().unwrap_or(1_000_000 + m as u64) };
    let mut chu = Chooser::record(Rng::new(sched_seed));
    let mut cho = Chooser::record(Rng::new(sched_seed ^ 0x0707));
    let ru = Sim::new(&tv.gu, cfg.clone()).run(inputs, &mut chu);
    let mut so = Sim::new(&tv.go, cfg.clone());
    so.address = Some(&fo);
    let ro = so.run(inputs, &mut cho);
    stats.runs += 2;
    stats.events += ru.events + ro.events;
    stats.sim_time += ru.sim_time + ro.sim_time;
    stats.interleavings.insert(ru.ev_hash);
    stats.interleavings.insert(ro.ev_hash);
    stats.faults.add(&ru.faults);
    stats.faults.add(&ro.faults);
    for (r, which) in [(&ru, "unoptimised"), (&ro, "optimised")] {
        match &r.status {
            Status::Completed => {}
            Status::Panic { party, node, msg } => return Err(Violation { class: "panic".into(), detail: format!("{} run: party {} node {}: {}", which, party, node, msg) }),
            Status::Stalled { detail } => return Err(Violation { class: "stalled".into(), detail: format!("{} run: {}", which, detail) }),
            Status::Harness { detail } => return Err(Violation { class: "harness".into(), detail: detail.clone() }),
        }
    }
    Ok(TwinRunOut { ru, ro })
}

pub fn c06_dynamic(tv: &TwinViews, out: &TwinRunOut, stats: &mut Stats) -> Option<Violation> {
    let np = out.ru.values.len();
    // mapped nodes carry the same value at every party
    for (i, m) in tv.map.iter().enumerate() {
        if let Some(m) = m {
            for p in 0..np {
                let cmp = pv_eq(&out.ru.values[p][i], &out.ro.values[p][*m]);
                if cmp.is_none() {
                    stats.probe("c06:mapped-pairs-not-comparable(poison)", 1);
                }
                if cmp == Some(false) {
                    return Some(Violation {
                        class: "mapped-node-value-differs".into(),
                        detail: format!(
                            "party {}: original node {} ({}) and its image {} ({}) carry different values under the same inputs and random draws",
                            p, i, tv.gu.nodes[i].op, m, tv.go.nodes[*m].op
                        ),
                    });
                }
            }
            stats.probe("c06:mapped-nodes-compared", 1);
        }
    }
    for p in 0..np {
        if out.ru.out[p].has_poison() || out.ro.out[p].has_poison() {
            continue;
        }
        if !out.ru.out[p].same(&out.ro.out[p]) {
            return Some(Violation { class: "output-differs".into(), detail: format!("party {}: outputs of the unoptimised and optimised graphs differ", p) });
        }
    }
    // Send markers: the optimised graph may only deliver messages the original delivers (same sender, receiver and
    // payload). A marker that disappears because the output no longer depends on its node (e.g. a tuple getter was
    // resolved) is legitimate; a marker that disappears although it is needed shows up as a value difference above.
    let cone_o = cone_of(&tv.go, tv.go.output);
    let su: BTreeSet<(usize, usize, u64)> = out.ru.msgs.iter().filter(|m| !m.payload.has_poison()).map(|m| (m.from, m.to, m.payload.hash())).collect();
    let so: BTreeSet<(usize, usize, u64)> = out.ro.msgs.iter().filter(|m| cone_o.contains(&m.node) && !m.payload.has_poison()).map(|m| (m.from, m.to, m.payload.hash())).collect();
    if !so.is_subset(&su) {
        let extra: Vec<_> = so.difference(&su).take(3).collect();
        if std::env::var("VERIF_DEBUG").is_ok() {
            for m in &out.ru.msgs {
                eprintln!("U msg node {} {}->{} hash {} {:?}", m.node, m.from, m.to, m.payload.hash(), crate::trisim::render_pv(&tv.gu.nodes[m.node].ty, &m.payload).to_string().chars().take(100).collect::<String>());
            }
            for m in &out.ro.msgs {
                eprintln!("O msg node {} {}->{} hash {} {:?}", m.node, m.from, m.to, m.payload.hash(), crate::trisim::render_pv(&tv.go.nodes[m.node].ty, &m.payload).to_string().chars().take(100).collect::<String>());
            }
            for (i, n) in tv.gu.nodes.iter().enumerate() {
                eprintln!("U n{} {} deps {:?} sends {:?} -> {:?}", i, n.op_tag().chars().take(50).collect::<String>(), n.deps, n.sends, tv.map[i]);
            }
            for (i, n) in tv.go.nodes.iter().enumerate() {
                eprintln!("O n{} {} deps {:?} sends {:?}", i, n.op_tag().chars().take(50).collect::<String>(), n.deps, n.sends);
            }
        }
        return Some(Violation {
            class: "send-markers-changed".into(),
            detail: format!("the optimised graph delivers messages the original does not: {:?} ({} before / {} after)", extra, su.len(), so.len()),
        });
    }
    // every Send-annotated node of the optimised graph is the image of a node with the same annotations
    for (i, m) in tv.map.iter().enumerate() {
        if let Some(m) = m {
            if !tv.go.nodes[*m].sends.is_empty() && tv.go.nodes[*m].sends != tv.gu.nodes[i].sends && tv.gu.nodes[i].sends.is_empty() {
                // an unannotated original node mapped onto an annotated one: values must agree per party (checked above)
                stats.probe("c06:unannotated-node-mapped-to-annotated", 1);
            }
        }
    }
    stats.probe("c06:messages-compared", su.len() as u64);
    None
}

/// Run-time C04 monitors on one run.
pub fn c04_runtime(gv: &GraphView, r: &RunResult, stats: &mut Stats) -> Option<Violation> {
    // no two distinct nodes query the same (key, counter) at any party
    let mut seen: BTreeMap<(usize, u64, u64), usize> = BTreeMap::new();
    for (p, node, keyh, iv) in &r.prf_queries {
        if let Some(prev) = seen.insert((*p, *keyh, *iv), *node) {
            if prev != *node {
                return Some(Violation {
                    class: "prf-input-reused".into(),
                    detail: format!("party {}: nodes {} ({}) and {} ({}) evaluate the PRF on the same key and counter {}", p, prev, gv.nodes[prev].op, node, gv.nodes[*node].op, iv),
                });
            }
        }
    }
    stats.probe("c04:prf-queries-logged", r.prf_queries.len() as u64);
    None
}

fn inputs_for(case: &Case, gv: &GraphView, junk: &JunkPlan, dealer_seed: u64) -> Result<Vec<Vec<PV>>, String> {
    // reuse exec::party_inputs through a minimal Compiled-like view: we only need input types
    let mut out = vec![];
    let mut jr = Rng::new(junk.seed);
    let mut prng = ciphercore_base::random::PRNG::new(Some(crate::vals::seed_from_u64(dealer_seed))).map_err(es)?;
    let its = case.prog.input_types();
    if its.len() != gv.inputs.len() {
        return Err(format!("graph has {} inputs, case has {}", gv.inputs.len(), its.len()));
    }
    for (k, t) in its.iter().enumerate() {
        let v = &case.inputs[k];
        let mk_junk = |p: usize, truth: &ciphercore_base::data_values::Value, jr: &mut Rng| match junk.kind[p] {
            JunkKind::True => PV::Leaf(truth.clone()),
            JunkKind::Zeros => PV::Leaf(crate::vals::const_value(t, 0)),
            JunkKind::Ones => PV::Leaf(crate::vals::const_value(t, u128::MAX)),
            JunkKind::Random => PV::Leaf(crate::vals::random_value(t, jr)),
            JunkKind::Poison => PV::Poison("junk".into()),
        };
        let per: Vec<PV> = match case.owners[k] {
            Owner::Public => (0..3).map(|_| PV::Leaf(v.clone())).collect(),
            Owner::Party(o) => (0..3usize).map(|p| if p == o as usize { PV::Leaf(v.clone()) } else { mk_junk(p, v, &mut jr) }).collect(),
            Owner::Shared => {
                let tvv = ciphercore_base::typed_value::TypedValue::new(t.clone(), v.clone()).map_err(es)?;
                let sh = tvv.secret_share(&mut prng).map_err(es)?;
                let shares = crate::vals::as_vec(&sh.value).ok_or("shares")?;
                (0..3usize).map(|p| PV::Tup((0..3usize).map(|s| if s == p || s == (p + 1) % 3 { PV::Leaf(shares[s].clone()) } else { mk_junk(p, &shares[s], &mut jr) }).collect())).collect()
            }
        };
        out.push(per);
    }
    Ok(out)
}

/// The complete check of one case; deterministic in (case, kind, run_seed).
pub fn check_case(case: &Case, kind: &str, run_seed: u64, which: &str, stats: &mut Stats) -> Result<Option<Violation>, String> {
    let twin = match if kind == "compiled" { compiled_twin(case)? } else { plain_twin(case)? } {
        Some(t) => t,
        None => {
            stats.skipped_rejected += 1;
            return Ok(None);
        }
    };
    let tv = views(&twin)?;
    if (which == "C06" || which == "both") && tv.gu.inputs.len() != case.inputs.len() {
        // the optimisation rounds inside the compiler pipeline already lost (or invented) an input node
        return Ok(Some(Violation {
            class: "inputs-changed".into(),
            detail: format!("the program has {} inputs, the graph handed to the last optimisation round has {} input nodes", case.inputs.len(), tv.gu.inputs.len()),
        }));
    }
    if std::env::var("VERIF_DEBUG").is_ok() {
        for (i, n) in tv.gu.nodes.iter().enumerate() {
            eprintln!("U n{} {} deps {:?} sends {:?} -> {:?}", i, n.op_tag().chars().take(50).collect::<String>(), n.deps, n.sends, tv.map[i]);
        }
        for (i, n) in tv.go.nodes.iter().enumerate() {
            eprintln!("O n{} {} deps {:?} sends {:?}", i, n.op_tag().chars().take(50).collect::<String>(), n.deps, n.sends);
        }
    }
    stats.nodes_total += (tv.gu.nodes.len() + tv.go.nodes.len()) as u64;
    stats.graph_shapes.insert(tv.gu.shape_hash());
    stats.probe("nodes-removed-by-optimiser", (tv.gu.nodes.len() - tv.go.nodes.len().min(tv.gu.nodes.len())) as u64);
    if which == "C04" || which == "both" {
        if let Some(exp) = twin.expected_random {
            let got = tv.gu.nodes.iter().filter(|n| is_rand_or_prf(&n.op)).count();
            stats.probe("c04:inlined-random-node-counts-checked", 1);
            if exp > 0 {
                stats.probe("c04:inlined-bodies-with-randomness", 1);
            }
            if got != exp {
                return Ok(Some(Violation {
                    class: "inlined-randomness-merged".into(),
                    detail: format!("the fully inlined graph contains {} randomising/PRF nodes, but its calls and iterations instantiate {} of them (every inlined copy of a body must draw afresh)", got, exp),
                }));
            }
        }
        if let Some(v) = c04_static(&tv, kind == "compiled", stats) {
            return Ok(Some(v));
        }
    }
    if which == "C06" || which == "both" {
        if let Some(v) = c06_static(&twin, &tv) {
            return Ok(Some(v));
        }
    }
    if kind != "compiled" && tv.gu.nodes.iter().any(|n| !n.sends.is_empty() && !matches!(n.op, Operation::NOP)) {
        // A Send marker on a node other than a NOP (a getter the meta-operation pass resolves): the unchanged optimiser
        // moves the marker onto the resolved element node, which other users may share, so per-party values of that
        // element legitimately change and no dynamic twin oracle is sound. The static promises above (the marker stays
        // on the image, inputs, recorded types, reload) are what is decided for such a graph.
        stats.probe("c06:static-only(marker on a non-NOP node)", 1);
        return Ok(None);
    }
    let mut rng = Rng::new(run_seed);
    let nruns = 2;
    for k in 0..nruns {
        let junk = if kind == "compiled" { JunkPlan::uniform(*rng.pick(&[JunkKind::True, JunkKind::Zeros, JunkKind::Random, JunkKind::Poison]), rng.next_u64()) } else { JunkPlan::uniform(JunkKind::True, 0) };
        let dealer = rng.next_u64();
        let inputs = inputs_for(case, &tv.gu, &junk, dealer)?;
        let tapes = [rng.next_u64(), rng.next_u64(), rng.next_u64()];
        let mut cfg = RunCfg::independent(tapes);
        cfg.policy = match rng.below(3) {
            0 => Policy::Lockstep,
            1 => Policy::RandomTopo,
            _ => Policy::Pct { d: 2 },
        };
        cfg.delivery = if rng.chance(1, 2) { Delivery::Immediate } else { Delivery::Reordered { max_delay: 20 } };
        cfg.instances = 1 + rng.usize_below(2);
        let out = match twin_run(&tv, &inputs, &cfg, rng.next_u64(), stats) {
            Ok(o) => o,
            Err(v) => return Ok(Some(v)),
        };
        stats.fire("tapes:addressed", 2);
        if junk.fired() {
            stats.fire(&format!("junk:{:?}", junk.kind[0]), 2);
        }
        stats.fire("order:out-of-order-evaluations", out.ru.faults.out_of_order_evals + out.ro.faults.out_of_order_evals);
        stats.fire("net:reordered", out.ru.faults.reordered + out.ro.faults.reordered);
        stats.fire("net:delayed", out.ru.faults.delayed + out.ro.faults.delayed);
        stats.fire("migrate", out.ru.faults.migrations + out.ro.faults.migrations);
        if which == "C06" || which == "both" {
            if let Some(v) = c06_dynamic(&tv, &out, stats) {
                return Ok(Some(v));
            }
        }
        if which == "C04" || which == "both" {
            // the freshness monitor applies to compiler output (a hand-made input graph may repeat a counter on purpose)
            if kind == "compiled" {
                if let Some(v) = c04_runtime(&tv.go, &out.ro, stats) {
                    return Ok(Some(v));
                }
            }
            // a second tape must change every Random draw (a folded Random would not)
            if k == 0 {
                let mut cfg2 = cfg.clone();
                cfg2.tapes = [tapes[0] ^ 0x5555, tapes[1] ^ 0x5555, tapes[2] ^ 0x5555];
                cfg2.addressed = true;
                let mut ch = Chooser::record(Rng::new(1));
                let r2 = Sim::new(&tv.go, cfg2).run(&inputs, &mut ch);
                stats.runs += 1;
                if r2.status == Status::Completed {
                    for p in 0..3 {
                        let a: BTreeMap<usize, u64> = out.ro.random_draws[p].iter().cloned().collect();
                        for (node, h) in &r2.random_draws[p] {
                            if let Some(h1) = a.get(node) {
                                let bits = ciphercore_base::data_types::get_size_in_bits(tv.go.nodes[*node].ty.clone()).unwrap_or(0);
                                if bits >= 64 && h1 == h && matches!(tv.go.nodes[*node].op, Operation::Random(_)) {
                                    return Ok(Some(Violation { class: "random-node-not-random".into(), detail: format!("party {}: Random node {} yields the same value under two different tapes", p, node) }));
                                }
                                stats.probe("c04:random-draws-compared-across-tapes", 1);
                            }
                        }
                    }
                }
            }
        }
        let key = crate::rng::combine(crate::rng::hash_str(&format!("{}|{:?}|{:?}|{}", case.prog.summary(), case.owners, case.outputs, kind)), out.ru.ev_hash);
        if tv.gu.num_sends() > 0 || kind == "plain" {
            stats.nontrivial.insert(key);
        }
    }
    Ok(None)
}

pub fn gen_opt_case(rng: &mut Rng, idx: usize, heavy: bool) -> (Case, &'static str) {
    // kinds: compiled general programs (2/3), decorated plain inlined graphs (1/3); C04 adds heavy protocols
    let kind = if idx % 3 == 2 { "plain" } else { "compiled" };
    loop {
        let mut cfg = GenCfg::swarm(rng);
        if kind == "plain" {
            cfg.allow_helpers = rng.chance(if heavy { 2 } else { 1 }, 4);
            if cfg.allow_helpers {
                cfg.fam[9] = cfg.fam[9].max(3);
            }
        }
        if heavy && kind == "compiled" {
            // protocols that draw several masks from one key / inline bodies many times
            cfg.fam[1] = 3; // mixed multiply (OT)
            cfg.fam[5] = 2; // A2B / B2A
            cfg.fam[9] = 3; // call / iterate
            cfg.allow_helpers = true;
        }
        if let Some(mut case) = gen_case(&cfg, rng) {
            // named inputs (the optimiser promises to keep every input with its name) and a few other named nodes
            {
                let g = case.prog.main_mut();
                let named: BTreeSet<usize> = g.node_names.iter().map(|(i, _)| *i).collect();
                for i in 0..g.steps.len() {
                    let is_input = matches!(g.steps[i].op, Operation::Input(_));
                    let is_call = matches!(g.steps[i].op, Operation::Call | Operation::Iterate);
                    if !named.contains(&i) && !is_call && ((is_input && rng.chance(2, 3)) || rng.chance(1, 12)) {
                        g.node_names.push((i, format!("nm{}", i)));
                    }
                }
            }
            if kind == "plain" {
                decorate_helpers(&mut case.prog, rng);
                decorate(&mut case.prog, rng);
                case.owners = vec![Owner::Public; case.owners.len()];
                case.outputs = vec![0, 1, 2];
            }
            if heavy && kind == "compiled" && rng.chance(1, 6) {
                // sort uses PermutationFromPRF of three keys
                let (c, _) = crate::gen_tables::sort_case(rng);
                return (c, "compiled");
            }
            return (case, kind);
        }
    }
}

pub struct OptOut {
    pub stats: Stats,
    pub violation: Option<OptReplay>,
    pub sample: Option<serde_json::Value>,
}

fn run_prop(args: &Args, prop: &'static str, n: usize, rule: &str) -> i32 {
    let t0 = std::time::Instant::now();
    let results = run_cases(
        n,
        args.threads,
        |r: &OptOut| r.violation.is_some(),
        |i| {
            let mut stats = Stats::default();
            stats.cases += 1;
            let mut rng = Rng::derive(args.seed, prop, i as u64);
            let (case, kind) = gen_opt_case(&mut rng, i, prop == "C04");
            let run_seed = rng.next_u64();
            let v = match check_case(&case, kind, run_seed, prop, &mut stats) {
                Ok(v) => v,
                Err(e) => Some(Violation { class: "harness".into(), detail: e }),
            };
            stats.probe(&format!("kind:{}", kind), 1);
            OptOut {
                sample: if i < 3 { Some(serde_json::json!({"kind": kind, "program": case.prog.summary(), "owners": format!("{:?}", case.owners), "outputs": case.outputs, "inline": format!("{:?}", case.inline)})) } else { None },
                violation: v.map(|violation| OptReplay {
                    property: prop.into(),
                    engine: "trisim/twin".into(),
                    seed: args.seed,
                    case_index: i as u64,
                    kind: kind.into(),
                    program_summary: case.prog.summary(),
                    case,
                    run_seed,
                    violation,
                }),
                stats,
            }
        },
    );
    let mut stats = Stats::default();
    let mut samples = vec![];
    let mut violation = None;
    for (_, r) in &results {
        stats.merge(&r.stats);
        if let Some(s) = &r.sample {
            samples.push(s.clone());
        }
        if violation.is_none() {
            violation = r.violation.clone();
        }
    }
    let mut code = 0;
    let mut nviol = 0;
    if let Some(v) = violation {
        nviol = 1;
        let v = minimise(v);
        match write_replay(&args.replay_dir, &format!("{}-{}-{}", prop, args.seed, v.case_index), &serde_json::to_value(&v).unwrap()) {
            Ok(path) => {
                println!("VIOLATION property={} replay={}", prop, path);
                println!("  class={} kind={} detail={}", v.violation.class, v.kind, v.violation.detail);
                println!("  program={}", v.program_summary);
            }
            Err(e) => {
                eprintln!("cannot write replay: {}", e);
                return 2;
            }
        }
        code = 1;
    }
    let wall = t0.elapsed().as_secs_f64();
    if samples.is_empty() {
        samples.push(serde_json::json!({"note": "no case completed"}));
    }
    let ev = EvidenceOut {
        args,
        level: "exploration",
        rule: rule.to_string(),
        evaluations: stats.runs.max(1),
        distinct_nontrivial: stats.nontrivial.len() as u64,
        samples,
        extra: {
            let mut j = stats_json(&stats, wall);
            j["cases_planned"] = serde_json::json!(n);
            j["cases_completed"] = serde_json::json!(results.len());
            j
        },
        assumptions: crate::props_tri::common_assumptions(),
        wall_s: wall,
        violations: nviol,
        exhaustive: false,
    };
    if let Err(e) = write_evidence(ev) {
        eprintln!("cannot write evidence: {}", e);
        return 2;
    }
    println!("[{}] tier={} seed={} cases={} runs={} nontrivial={} skipped={} wall={:.1}s", prop, args.tier.name(), args.seed, stats.cases, stats.runs, stats.nontrivial.len(), stats.skipped_rejected, wall);
    code
}

fn minimise(mut rp: OptReplay) -> OptReplay {
    // program reduction: make an earlier step the output (compiled kind only; decorated graphs end in a tuple)
    let class = rp.violation.class.clone();
    let mut budget = 60;
    loop {
        let mut progressed = false;
        let cur_out = rp.case.prog.main().output;
        for new_out in 0..cur_out {
            if budget == 0 {
                break;
            }
            let mut cand = rp.clone();
            {
                let m = cand.case.prog.main_mut();
                m.output = new_out;
                m.steps.truncate(new_out + 1);
                m.node_annotations.retain(|(i, _)| *i <= new_out);
                m.node_names.retain(|(i, _)| *i <= new_out);
            }
            if cand.case.prog.input_types().len() != rp.case.prog.input_types().len() {
                continue;
            }
            budget -= 1;
            let mut st = Stats::default();
            if let Ok(Some(v)) = check_case(&cand.case, &cand.kind, cand.run_seed, &cand.property, &mut st) {
                if v.class == class {
                    cand.violation = v;
                    cand.program_summary = cand.case.prog.summary();
                    rp = cand;
                    progressed = true;
                    break;
                }
            }
        }
        if !progressed || budget == 0 {
            break;
        }
    }
    rp
}

pub fn run_c06(args: &Args) -> i32 {
    let n = args.cases.unwrap_or(match args.tier {
        Tier::Quick => 12000,
        Tier::Thorough => 40000,
    });
    run_prop(args, "C06", n, "cases = (U, O = optimize_context(U)) twins: U is the unoptimised compiler output of a seeded DSL program (two thirds) or a generated inlined plaintext graph decorated with Random/PRF nodes, Send-annotated NOPs, duplicated sub-expressions, foldable constants, tuple plumbing and dangling nodes (one third). Both are executed by the three-party simulator under the same inputs, junk, schedule policy and tapes addressed by ORIGINAL node identity through the returned mapping. Oracles: every mapped node carries the same value at every party; outputs equal; same (sender, receiver, payload) set on the output's dependency cone; input nodes identical in number/order/type/name; recorded types equal the types re-derived after a serde reload. distinct_nontrivial = distinct (program, configuration, event-order) tuples with >= 1 Send (compiled) or decorated (plain)")
}

pub fn run_c04(args: &Args) -> i32 {
    let n = args.cases.unwrap_or(match args.tier {
        Tier::Quick => 2500,
        Tier::Thorough => 30000,
    });
    run_prop(args, "C04", n, "cases = compiler pipeline outputs (all three inline modes; programs biased to protocols that draw several masks from one key: oblivious transfer via mixed multiply, A2B/B2A, sort/permutation, repeatedly inlined Call/Iterate bodies) and generated inlined graphs with Random/PRF/annotated nodes given to the optimiser. Static: PRF/PermutationFromPRF counters of the final main graph pairwise distinct; the optimiser's mapping is injective on randomising/PRF nodes, keeps their operation, and every such node of the output has exactly one preimage; PRF keys descend from Random/Input nodes, never constants. Run-time (three-party simulation): no two distinct nodes query the same (key bytes, counter) at any party; a second tape changes every Random draw")
}

pub fn replay_cmd(path: &str) -> i32 {
    let s = match std::fs::read_to_string(path) {
        Ok(s) => s,
        Err(e) => {
            eprintln!("cannot read {}: {}", path, e);
            return 2;
        }
    };
    let rp: OptReplay = match serde_json::from_str(&s) {
        Ok(r) => r,
        Err(e) => {
            eprintln!("cannot parse replay: {}", e);
            return 2;
        }
    };
    let mut st = Stats::default();
    match check_case(&rp.case, &rp.kind, rp.run_seed, &rp.property, &mut st) {
        Ok(Some(v)) => {
            println!("VIOLATION property={} replay={}", rp.property, path);
            println!("  class={} detail={}", v.class, v.detail);
            1
        }
        Ok(None) => {
            println!("replay {}: no violation reproduced (recorded: {})", path, rp.violation.class);
            0
        }
        Err(e) => {
            eprintln!("replay error: {}", e);
            2
        }
    }
}

#[allow(dead_code)]
fn _u(_: Inline) {}

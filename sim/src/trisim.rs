//! trisim: three parties execute a compiled CipherCore graph inside one process.
//!
//! Real code: every node evaluation goes through `SimpleEvaluator::evaluate_node`.
//! Stub (written from reference/runtime.md, ciphercore_split_parties.rs, mpc_equivalence_class.rs):
//! per-party value stores, "evaluate everything locally, overwrite at Send", transport, scheduler.

use crate::rng::{combine, mix64, Chooser};
use crate::vals::{children_types, dec};
use ciphercore_base::data_types::Type;
use ciphercore_base::data_values::Value;
use ciphercore_base::evaluators::simple_evaluator::SimpleEvaluator;
use ciphercore_base::evaluators::Evaluator;
use ciphercore_base::graphs::{Graph, Node, NodeAnnotation, Operation};
use serde::{Deserialize, Serialize};
use std::collections::{BTreeMap, BTreeSet};
use std::panic::{catch_unwind, AssertUnwindSafe};
use std::sync::Arc;

// ---------------------------------------------------------------------------------------------
// Party values: trees with Poison
// ---------------------------------------------------------------------------------------------

#[derive(Clone, Debug)]
pub enum PV {
    Leaf(Value),
    Poison(Arc<str>),
    Tup(Vec<PV>),
}

impl PV {
    pub fn to_value(&self) -> Option<Value> {
        match self {
            PV::Leaf(v) => Some(v.clone()),
            PV::Poison(_) => None,
            PV::Tup(cs) => {
                let mut out = Vec::with_capacity(cs.len());
                for c in cs {
                    out.push(c.to_value()?);
                }
                Some(Value::from_vector(out))
            }
        }
    }
    pub fn first_poison(&self) -> Option<Arc<str>> {
        match self {
            PV::Leaf(_) => None,
            PV::Poison(c) => Some(c.clone()),
            PV::Tup(cs) => cs.iter().find_map(|c| c.first_poison()),
        }
    }
    pub fn has_poison(&self) -> bool {
        self.first_poison().is_some()
    }
    pub fn is_all_poison(&self) -> bool {
        matches!(self, PV::Poison(_))
    }
    /// i-th child of a tuple/vector-like value.
    pub fn child(&self, i: usize) -> PV {
        match self {
            PV::Tup(cs) => cs.get(i).cloned().unwrap_or_else(|| PV::Poison("child index out of range".into())),
            PV::Poison(c) => PV::Poison(c.clone()),
            PV::Leaf(v) => match crate::vals::as_vec(v).ok_or(()) {
                Ok(vs) => vs.get(i).map(|x| PV::Leaf(x.clone())).unwrap_or_else(|| PV::Poison("child index out of range".into())),
                Err(_) => PV::Poison("child of a non-vector value".into()),
            },
        }
    }
    pub fn children(&self) -> Option<Vec<PV>> {
        match self {
            PV::Tup(cs) => Some(cs.clone()),
            PV::Poison(_) => None,
            PV::Leaf(v) => crate::vals::as_vec(v).map(|vs| vs.into_iter().map(PV::Leaf).collect()),
        }
    }
    pub fn hash(&self) -> u64 {
        match self {
            PV::Leaf(v) => match crate::vals::as_vec(v) {
                // canonical: a vector value hashes like the tuple of its children
                Some(vs) => {
                    let mut h = 3u64;
                    for c in vs {
                        h = combine(h, PV::Leaf(c).hash());
                    }
                    h
                }
                None => combine(1, crate::vals::value_hash(v)),
            },
            PV::Poison(_) => 0xDEAD_0000_0000_0001,
            PV::Tup(cs) => {
                let mut h = 3u64;
                for c in cs {
                    h = combine(h, c.hash());
                }
                h
            }
        }
    }
    pub fn same(&self, other: &PV) -> bool {
        match (self, other) {
            (PV::Leaf(a), PV::Leaf(b)) => a == b,
            (PV::Poison(_), PV::Poison(_)) => true,
            (PV::Tup(a), PV::Tup(b)) => a.len() == b.len() && a.iter().zip(b.iter()).all(|(x, y)| x.same(y)),
            (PV::Leaf(_), PV::Tup(_)) | (PV::Tup(_), PV::Leaf(_)) => match (self.to_value(), other.to_value()) {
                (Some(a), Some(b)) => a == b,
                _ => false,
            },
            _ => false,
        }
    }
}

// ---------------------------------------------------------------------------------------------
// Static view of a compiled main graph
// ---------------------------------------------------------------------------------------------

pub struct NodeInfo {
    pub node: Node,
    pub op: Operation,
    pub deps: Vec<usize>,
    pub users: Vec<usize>,
    pub ty: Type,
    pub sends: Vec<(usize, usize)>,
    pub annotations: Vec<NodeAnnotation>,
}

pub struct GraphView {
    pub graph: Graph,
    pub nodes: Vec<NodeInfo>,
    pub inputs: Vec<usize>,
    pub output: usize,
}

impl GraphView {
    pub fn new(graph: &Graph) -> Result<GraphView, String> {
        let ns = graph.get_nodes();
        let mut nodes = Vec::with_capacity(ns.len());
        let mut inputs = vec![];
        for (i, n) in ns.iter().enumerate() {
            let op = n.get_operation();
            if matches!(op, Operation::Call | Operation::Iterate | Operation::Custom(_)) {
                return Err(format!("graph is not fully inlined/instantiated: node {} is {}", i, op));
            }
            if op.is_input() {
                inputs.push(i);
            }
            let deps: Vec<usize> = n.get_node_dependencies().iter().map(|d| d.get_id() as usize).collect();
            let annotations = n.get_annotations().map_err(crate::dsl::es)?;
            let sends: Vec<(usize, usize)> = annotations
                .iter()
                .filter_map(|a| if let NodeAnnotation::Send(s, r) = a { Some((*s as usize, *r as usize)) } else { None })
                .collect();
            // the compiler puts Send markers on NOP nodes only; generated graphs (C06) may carry them on any node:
            // the value is computed locally and then transferred, exactly as for a NOP
            let ty = n.get_type().map_err(crate::dsl::es)?;
            nodes.push(NodeInfo { node: n.clone(), op, deps, users: vec![], ty, sends, annotations });
        }
        for i in 0..nodes.len() {
            let deps = nodes[i].deps.clone();
            for d in deps {
                nodes[d].users.push(i);
            }
        }
        let output = graph.get_output_node().map_err(crate::dsl::es)?.get_id() as usize;
        Ok(GraphView { graph: graph.clone(), nodes, inputs, output })
    }
    pub fn num_sends(&self) -> usize {
        self.nodes.iter().map(|n| n.sends.len()).sum()
    }
    /// Hash of op/annotation sequence: "compiled graph shape".
    pub fn shape_hash(&self) -> u64 {
        let mut h = 7u64;
        for n in &self.nodes {
            h = combine(h, crate::rng::hash_str(&format!("{:?}|{:?}|{:?}", n.op_tag(), n.deps, n.sends)));
        }
        h
    }
}

impl NodeInfo {
    pub fn op_tag(&self) -> String {
        match &self.op {
            Operation::Constant(t, v) => format!("Constant({:?},{:x})", t, crate::vals::value_hash(v)),
            o => format!("{:?}", o),
        }
    }
    pub fn is_randomizing(&self) -> bool {
        matches!(
            self.op,
            Operation::Random(_) | Operation::RandomPermutation(_) | Operation::CuckooToPermutation | Operation::DecomposeSwitchingMap(_)
        )
    }
}

// ---------------------------------------------------------------------------------------------
// Run configuration
// ---------------------------------------------------------------------------------------------

#[derive(Clone, Debug, Serialize, Deserialize, PartialEq)]
pub enum Policy {
    /// node-id order, all parties in step (control)
    Lockstep,
    /// uniformly random enabled event; random ready node
    RandomTopo,
    /// `fast` runs as far ahead as dependencies allow, `stalled` is held back for `stall` events
    Skewed { fast: usize, stalled: usize, stall: u32 },
    /// random priorities per party/network with `d` priority change points
    Pct { d: u32 },
}

#[derive(Clone, Debug, Serialize, Deserialize, PartialEq)]
pub enum Delivery {
    Immediate,
    Delayed { max_delay: u32 },
    Reordered { max_delay: u32 },
    Duplicated { max_delay: u32, dup_pct: u32 },
}

#[derive(Clone, Debug, Serialize, Deserialize)]
pub struct RunCfg {
    /// 3 = three separate parties; 1 = all roles collapsed into one value store (Sends are no-ops)
    pub parties: usize,
    /// per-party tape seeds; equal seeds + Lockstep + 1 evaluator reproduce the repository's own global run
    pub tapes: [u64; 3],
    /// shared: one evaluator instance serves all parties (the repository's single-evaluator semantics)
    pub shared_tape: bool,
    /// addressed tapes: randomising nodes are drawn from H(tape, address(node)) instead of a stream
    pub addressed: bool,
    pub policy: Policy,
    pub delivery: Delivery,
    /// per-mille chance, before each node evaluation, that the party's evaluator instance is dropped and recreated
    pub restart_pm: u32,
    /// evaluator instances per party (nodes are dispatched to a seeded one)
    pub instances: usize,
    pub keep_values: bool,
}

impl RunCfg {
    pub fn control(seed: u64) -> RunCfg {
        RunCfg {
            parties: 3,
            tapes: [seed, seed, seed],
            shared_tape: true,
            addressed: false,
            policy: Policy::Lockstep,
            delivery: Delivery::Immediate,
            restart_pm: 0,
            instances: 1,
            keep_values: false,
        }
    }
    pub fn independent(t: [u64; 3]) -> RunCfg {
        RunCfg {
            parties: 3,
            tapes: t,
            shared_tape: false,
            addressed: false,
            policy: Policy::Lockstep,
            delivery: Delivery::Immediate,
            restart_pm: 0,
            instances: 1,
            keep_values: false,
        }
    }
}

#[derive(Clone, Debug, Serialize, Deserialize, PartialEq)]
pub enum Status {
    Completed,
    /// not all parties finished within the event budget once faults stopped
    Stalled { detail: String },
    Panic { party: usize, node: usize, msg: String },
    Harness { detail: String },
}

#[derive(Clone, Debug)]
pub struct MsgRec {
    pub node: usize,
    pub idx: usize,
    pub from: usize,
    pub to: usize,
    pub payload: PV,
}

#[derive(Clone, Debug, Default, Serialize, Deserialize)]
pub struct FaultCounts {
    pub restarts: u64,
    pub migrations: u64,
    pub delayed: u64,
    pub reordered: u64,
    pub duplicated: u64,
    pub stalled_steps: u64,
    pub out_of_order_evals: u64,
    pub poison_nodes: u64,
    pub poison_emitted: u64,
    pub eval_errors: u64,
}

impl FaultCounts {
    pub fn add(&mut self, o: &FaultCounts) {
        self.restarts += o.restarts;
        self.migrations += o.migrations;
        self.delayed += o.delayed;
        self.reordered += o.reordered;
        self.duplicated += o.duplicated;
        self.stalled_steps += o.stalled_steps;
        self.out_of_order_evals += o.out_of_order_evals;
        self.poison_nodes += o.poison_nodes;
        self.poison_emitted += o.poison_emitted;
        self.eval_errors += o.eval_errors;
    }
}

pub struct RunResult {
    pub status: Status,
    pub out: Vec<PV>,
    pub events: u64,
    pub sim_time: u64,
    pub ev_hash: u64,
    pub msgs: Vec<MsgRec>,
    pub faults: FaultCounts,
    pub choices: Vec<u32>,
    /// (party, node, error) of the first evaluation errors (poison causes)
    pub first_errors: Vec<(usize, usize, String)>,
    /// values of all nodes per party when cfg.keep_values
    pub values: Vec<Vec<Option<PV>>>,
    /// per party: draws of randomising nodes (node id, value hash)
    pub random_draws: Vec<Vec<(usize, u64)>>,
    /// (party, node, key bytes hash, counter) for every PRF evaluation
    pub prf_queries: Vec<(usize, usize, u64, u64)>,
}

// ---------------------------------------------------------------------------------------------
// Panic capture
// ---------------------------------------------------------------------------------------------

thread_local! {
    static LAST_PANIC: std::cell::RefCell<String> = std::cell::RefCell::new(String::new());
}

pub fn install_quiet_panic_hook() {
    std::panic::set_hook(Box::new(|info| {
        let loc = info.location().map(|l| format!("{}:{}", l.file(), l.line())).unwrap_or_default();
        let msg = if let Some(s) = info.payload().downcast_ref::<&str>() {
            s.to_string()
        } else if let Some(s) = info.payload().downcast_ref::<String>() {
            s.clone()
        } else {
            "panic".to_string()
        };
        if std::env::var("VERIF_BACKTRACE").is_ok() {
            eprintln!("panic: {} at {}\n{}", msg, loc, std::backtrace::Backtrace::force_capture());
        }
        LAST_PANIC.with(|c| *c.borrow_mut() = format!("{} at {}", msg, loc));
    }));
}

pub fn take_last_panic() -> String {
    LAST_PANIC.with(|c| std::mem::take(&mut *c.borrow_mut()))
}

pub fn guarded<T>(f: impl FnOnce() -> T) -> Result<T, String> {
    match catch_unwind(AssertUnwindSafe(f)) {
        Ok(v) => Ok(v),
        Err(_) => Err(take_last_panic()),
    }
}

// ---------------------------------------------------------------------------------------------
// The simulator
// ---------------------------------------------------------------------------------------------

struct Party {
    vals: Vec<Option<PV>>,
    // node finished all its stages
    done: Vec<bool>,
    remaining: Vec<u32>,
    // ready work: (node, phase) phase 0 = evaluate, 1 = continue send stages
    ready: BTreeSet<usize>,
    stage: Vec<u8>,
    evaluated: Vec<bool>,
    waiting: BTreeMap<(usize, usize), ()>,
    mailbox: BTreeMap<(usize, usize), PV>,
    evals: Vec<SimpleEvaluator>,
    restarts: u64,
    finished: usize,
    max_evaluated: usize,
}

struct InFlight {
    node: usize,
    idx: usize,
    to: usize,
    payload: PV,
    ready_at: u64,
    seq: u64,
}

fn mk_eval(tape: u64, salt: u64) -> SimpleEvaluator {
    let s = if salt == 0 { tape } else { combine(tape, salt) };
    SimpleEvaluator::new(Some(crate::vals::seed_from_u64(s))).expect("SimpleEvaluator::new")
}

pub struct Sim<'a> {
    pub gv: &'a GraphView,
    pub cfg: RunCfg,
    /// address of a randomising node for addressed tapes (default: node id)
    pub address: Option<&'a dyn Fn(usize) -> u64>,
    /// idealised randomness: when set, Random / PRF nodes are answered by the oracle (C03 exact mode)
    pub oracle: Option<&'a std::cell::RefCell<dyn RandomOracle + 'a>>,
}

/// Idealised source of randomness (used only by C03's exact mode; never by any other check).
pub trait RandomOracle {
    /// value of a Random node `node` drawn by party `p`
    fn random(&mut self, p: usize, node: usize, ty: &Type) -> Option<Value>;
    /// value of PRF(key, iv) of type `ty` evaluated by party `p` at node `node`
    fn prf(&mut self, p: usize, node: usize, key: &Value, iv: u64, ty: &Type) -> Option<Value>;
}

fn idx_from_value(v: &Value, t: &Type) -> Option<usize> {
    match t {
        Type::Scalar(_) => dec(v, t).first().map(|x| *x as usize),
        _ => None,
    }
}

impl<'a> Sim<'a> {
    pub fn new(gv: &'a GraphView, cfg: RunCfg) -> Sim<'a> {
        Sim { gv, cfg, address: None, oracle: None }
    }

    /// inputs[k][p]: value of the k-th Input node at party p.
    pub fn run(&self, inputs: &[Vec<PV>], chooser: &mut Chooser) -> RunResult {
        let gv = self.gv;
        let cfg = &self.cfg;
        let np = cfg.parties;
        let n = gv.nodes.len();
        let mut res = RunResult {
            status: Status::Completed,
            out: vec![],
            events: 0,
            sim_time: 0,
            ev_hash: 0x1234,
            msgs: vec![],
            faults: FaultCounts::default(),
            choices: vec![],
            first_errors: vec![],
            values: vec![],
            random_draws: vec![vec![]; np],
            prf_queries: vec![],
        };
        if inputs.len() != gv.inputs.len() {
            res.status = Status::Harness { detail: format!("{} inputs expected, {} given", gv.inputs.len(), inputs.len()) };
            return res;
        }
        let mut input_index = vec![usize::MAX; n];
        for (k, id) in gv.inputs.iter().enumerate() {
            input_index[*id] = k;
        }
        let mut shared_eval: Option<SimpleEvaluator> = if cfg.shared_tape { Some(mk_eval(cfg.tapes[0], 0)) } else { None };
        let mut parties: Vec<Party> = (0..np)
            .map(|p| {
                let mut remaining = vec![0u32; n];
                let mut ready = BTreeSet::new();
                for (i, ni) in gv.nodes.iter().enumerate() {
                    remaining[i] = ni.deps.len() as u32;
                    if ni.deps.is_empty() {
                        ready.insert(i);
                    }
                }
                Party {
                    vals: vec![None; n],
                    done: vec![false; n],
                    remaining,
                    ready,
                    stage: vec![0; n],
                    evaluated: vec![false; n],
                    waiting: BTreeMap::new(),
                    mailbox: BTreeMap::new(),
                    evals: (0..cfg.instances.max(1)).map(|k| mk_eval(cfg.tapes[p], k as u64)).collect(),
                    restarts: 0,
                    finished: 0,
                    max_evaluated: 0,
                }
            })
            .collect();
        let mut shared_memo: Vec<Option<PV>> = vec![None; if cfg.shared_tape { n } else { 0 }];
        let mut in_flight: Vec<InFlight> = vec![];
        let mut now: u64 = 0;
        let mut seq: u64 = 0;
        let budget: u64 = (np as u64) * (n as u64) * 4 + 8 * gv.num_sends() as u64 + 1000;
        // PCT state
        let mut prio: Vec<u32> = (0..np + 1).map(|i| 100 + i as u32).collect();
        let mut change_points: Vec<u64> = vec![];
        if let Policy::Pct { d } = cfg.policy {
            for i in 0..np + 1 {
                prio[i] = 100 + chooser.choose(1000) as u32;
            }
            let horizon = (np * n + gv.num_sends()).max(1);
            for _ in 0..d {
                change_points.push(chooser.choose(horizon) as u64);
            }
        }
        let mut stall_left: u32 = if let Policy::Skewed { stall, .. } = cfg.policy { stall } else { 0 };

        loop {
            if res.events > budget {
                res.status = Status::Stalled { detail: format!("event budget {} exhausted", budget) };
                break;
            }
            // enabled events
            let deliverable: Vec<usize> =
                in_flight.iter().enumerate().filter(|(_, m)| m.ready_at <= now).map(|(i, _)| i).collect();
            let runnable: Vec<usize> = (0..np).filter(|p| !parties[*p].ready.is_empty()).collect();
            if deliverable.is_empty() && runnable.is_empty() {
                if !in_flight.is_empty() {
                    // discrete-event time: jump to the next delivery
                    now = in_flight.iter().map(|m| m.ready_at).min().unwrap();
                    continue;
                }
                break;
            }
            // choose event: Some(party) or None = deliver
            #[derive(Clone, Copy)]
            enum Ev {
                Step(usize),
                Deliver(usize),
            }
            let ev = match &cfg.policy {
                Policy::Lockstep => {
                    if !deliverable.is_empty() {
                        // lowest sequence number first
                        let i = *deliverable.iter().min_by_key(|i| in_flight[**i].seq).unwrap();
                        Ev::Deliver(i)
                    } else {
                        let p = *runnable
                            .iter()
                            .min_by_key(|p| (*parties[**p].ready.iter().next().unwrap(), **p))
                            .unwrap();
                        Ev::Step(p)
                    }
                }
                Policy::RandomTopo => {
                    let k = runnable.len() + deliverable.len();
                    let c = chooser.choose(k);
                    if c < runnable.len() {
                        Ev::Step(runnable[c])
                    } else {
                        Ev::Deliver(deliverable[c - runnable.len()])
                    }
                }
                Policy::Skewed { fast, stalled, .. } => {
                    let fast = *fast % np;
                    let stalled = *stalled % np;
                    if runnable.contains(&fast) {
                        Ev::Step(fast)
                    } else if !deliverable.is_empty() {
                        Ev::Deliver(deliverable[chooser.choose(deliverable.len())])
                    } else {
                        let others: Vec<usize> = runnable.iter().cloned().filter(|p| *p != stalled || stall_left == 0).collect();
                        if others.is_empty() {
                            // only the stalled party can move: the stall ends (bounded liveness)
                            res.faults.stalled_steps += stall_left as u64;
                            stall_left = 0;
                            Ev::Step(stalled)
                        } else {
                            if stall_left > 0 && runnable.contains(&stalled) {
                                stall_left -= 1;
                                res.faults.stalled_steps += 1;
                            }
                            Ev::Step(others[chooser.choose(others.len())])
                        }
                    }
                }
                Policy::Pct { .. } => {
                    if change_points.contains(&res.events) {
                        // lower the priority of the currently highest enabled actor
                        let mut best = None;
                        for p in &runnable {
                            if best.map(|b: usize| prio[*p] > prio[b]).unwrap_or(true) {
                                best = Some(*p);
                            }
                        }
                        if !deliverable.is_empty() && best.map(|b| prio[np] > prio[b]).unwrap_or(true) {
                            best = Some(np);
                        }
                        if let Some(b) = best {
                            prio[b] = prio[b].saturating_sub(1000 + res.events as u32 % 7);
                            prio[b] = prio[b].min(99 - (res.events % 50) as u32);
                        }
                    }
                    let mut best: Option<usize> = None;
                    for p in &runnable {
                        if best.map(|b| prio[*p] > prio[b]).unwrap_or(true) {
                            best = Some(*p);
                        }
                    }
                    if !deliverable.is_empty() && best.map(|b| prio[np] > prio[b]).unwrap_or(true) {
                        let i = *deliverable.iter().min_by_key(|i| in_flight[**i].seq).unwrap();
                        Ev::Deliver(i)
                    } else {
                        Ev::Step(best.unwrap())
                    }
                }
            };
            res.events += 1;
            now += 1;
            match ev {
                Ev::Deliver(i) => {
                    let m = in_flight.remove(i);
                    res.ev_hash = combine(res.ev_hash, combine(0xD, combine(m.node as u64, (m.idx * 4 + m.to) as u64)));
                    // duplicate delivery: the transport re-enqueues a copy; the mailbox is idempotent
                    if let Delivery::Duplicated { max_delay, dup_pct } = cfg.delivery {
                        if m.seq & (1 << 63) == 0 && chooser.chance(dup_pct as usize, 100) {
                            res.faults.duplicated += 1;
                            seq += 1;
                            in_flight.push(InFlight {
                                node: m.node,
                                idx: m.idx,
                                to: m.to,
                                payload: m.payload.clone(),
                                ready_at: now + chooser.choose(max_delay as usize + 1) as u64,
                                seq: seq | (1 << 63),
                            });
                        }
                    }
                    let pr = &mut parties[m.to];
                    if pr.stage[m.node] as usize > m.idx || pr.mailbox.contains_key(&(m.node, m.idx)) {
                        // duplicate of something already consumed / present: dropped by the transport
                        continue;
                    }
                    pr.mailbox.insert((m.node, m.idx), m.payload);
                    if pr.waiting.remove(&(m.node, m.idx)).is_some() {
                        pr.ready.insert(m.node);
                    }
                }
                Ev::Step(p) => {
                    // choose node
                    let node = match &cfg.policy {
                        Policy::RandomTopo => {
                            let k = parties[p].ready.len();
                            let c = chooser.choose(k.min(64));
                            *parties[p].ready.iter().nth(c).unwrap()
                        }
                        Policy::Skewed { .. } => {
                            if chooser.chance(1, 4) {
                                let k = parties[p].ready.len();
                                let c = chooser.choose(k.min(64));
                                *parties[p].ready.iter().nth(c).unwrap()
                            } else {
                                *parties[p].ready.iter().next().unwrap()
                            }
                        }
                        _ => *parties[p].ready.iter().next().unwrap(),
                    };
                    parties[p].ready.remove(&node);
                    res.ev_hash = combine(res.ev_hash, combine(0xE, combine(node as u64, p as u64)));
                    let ni = &gv.nodes[node];
                    if !parties[p].evaluated[node] {
                        if node < parties[p].max_evaluated {
                            res.faults.out_of_order_evals += 1;
                        }
                        parties[p].max_evaluated = parties[p].max_evaluated.max(node);
                        // restart fault
                        if cfg.restart_pm > 0 && !cfg.shared_tape && chooser.chance(cfg.restart_pm as usize, 1000) {
                            let k = if parties[p].evals.len() > 1 { chooser.choose(parties[p].evals.len()) } else { 0 };
                            parties[p].restarts += 1;
                            let salt = 1000 + parties[p].restarts * 16 + k as u64;
                            parties[p].evals[k] = mk_eval(cfg.tapes[p], salt);
                            res.faults.restarts += 1;
                        }
                        let inst = if parties[p].evals.len() > 1 {
                            let k = chooser.choose(parties[p].evals.len());
                            if k != 0 {
                                res.faults.migrations += 1;
                            }
                            k
                        } else {
                            0
                        };
                        // evaluate
                        let v = if input_index[node] != usize::MAX {
                            inputs[input_index[node]][p.min(inputs[input_index[node]].len() - 1)].clone()
                        } else if cfg.shared_tape && ni.is_randomizing() && shared_memo[node].is_some() {
                            // one shared tape: a randomising node is drawn once, as in the repository's global run
                            shared_memo[node].clone().unwrap()
                        } else {
                            let depvals: Vec<PV> = ni.deps.iter().map(|d| parties[p].vals[*d].clone().expect("dep not final")).collect();
                            let r = {
                                let ev: &mut SimpleEvaluator = if let Some(se) = shared_eval.as_mut() { se } else { &mut parties[p].evals[inst] };
                                eval_node(gv, node, &depvals, ev, cfg, p, self.address, self.oracle, &mut res)
                            };
                            match r {
                                Ok(v) => {
                                    if cfg.shared_tape && ni.is_randomizing() {
                                        shared_memo[node] = Some(v.clone());
                                    }
                                    v
                                }
                                Err(msg) => {
                                    res.status = Status::Panic { party: p, node, msg };
                                    break;
                                }
                            }
                        };
                        if v.has_poison() {
                            res.faults.poison_nodes += 1;
                        }
                        parties[p].vals[node] = Some(v);
                        parties[p].evaluated[node] = true;
                    }
                    // send stages
                    let mut blocked = false;
                    while (parties[p].stage[node] as usize) < ni.sends.len() && np == 3 {
                        let i = parties[p].stage[node] as usize;
                        let (s, r) = ni.sends[i];
                        if s == r {
                            parties[p].stage[node] += 1;
                            continue;
                        }
                        if p == s {
                            let payload = parties[p].vals[node].clone().unwrap();
                            if payload.is_all_poison() {
                                res.faults.poison_emitted += 1;
                            }
                            res.msgs.push(MsgRec { node, idx: i, from: s, to: r, payload: payload.clone() });
                            seq += 1;
                            let (delay, reorder) = match cfg.delivery {
                                Delivery::Immediate => (0u64, false),
                                Delivery::Delayed { max_delay } => (chooser.choose(max_delay as usize + 1) as u64, false),
                                Delivery::Reordered { max_delay } => (chooser.choose(max_delay as usize + 1) as u64, true),
                                Delivery::Duplicated { max_delay, .. } => (chooser.choose(max_delay as usize + 1) as u64, true),
                            };
                            if delay > 0 {
                                res.faults.delayed += 1;
                            }
                            if reorder && in_flight.iter().any(|m| m.to == r && m.ready_at > now + delay) {
                                res.faults.reordered += 1;
                            }
                            if matches!(cfg.delivery, Delivery::Immediate) {
                                // synchronous hand-over
                                let pr = &mut parties[r];
                                pr.mailbox.insert((node, i), payload);
                                if pr.waiting.remove(&(node, i)).is_some() {
                                    pr.ready.insert(node);
                                }
                            } else {
                                let ready_at = if reorder {
                                    now + delay
                                } else {
                                    // FIFO per channel: never earlier than the previous message on the same channel
                                    let prev = in_flight.iter().filter(|m| m.to == r).map(|m| m.ready_at).max().unwrap_or(0);
                                    (now + delay).max(prev)
                                };
                                in_flight.push(InFlight { node, idx: i, to: r, payload, ready_at, seq });
                            }
                            parties[p].stage[node] += 1;
                        } else if p == r {
                            if let Some(pl) = parties[p].mailbox.remove(&(node, i)) {
                                parties[p].vals[node] = Some(pl);
                                parties[p].stage[node] += 1;
                            } else {
                                parties[p].waiting.insert((node, i), ());
                                blocked = true;
                                break;
                            }
                        } else {
                            parties[p].stage[node] += 1;
                        }
                    }
                    if !blocked {
                        parties[p].done[node] = true;
                        parties[p].finished += 1;
                        for u in &ni.users {
                            parties[p].remaining[*u] -= 1;
                            if parties[p].remaining[*u] == 0 {
                                parties[p].ready.insert(*u);
                            }
                        }
                    }
                }
            }
        }
        res.sim_time = now;
        if res.status == Status::Completed {
            for p in 0..np {
                if parties[p].finished != n {
                    let w: Vec<String> = parties[p].waiting.keys().take(3).map(|k| format!("{:?}", k)).collect();
                    res.status = Status::Stalled {
                        detail: format!("party {} finished {}/{} nodes, waiting for {:?}", p, parties[p].finished, n, w),
                    };
                    break;
                }
            }
        }
        res.out = (0..np)
            .map(|p| parties[p].vals[gv.output].clone().unwrap_or_else(|| PV::Poison("unset".into())))
            .collect();
        if cfg.keep_values {
            res.values = parties.iter_mut().map(|p| std::mem::take(&mut p.vals)).collect();
        }
        res.choices = chooser.log().clone();
        res
    }
}

/// Evaluate one node at one party. Structural operations are applied on trees so that a poisoned
/// slot does not poison the slots a party legitimately holds; everything else needs fully
/// defined operands and is evaluated by the repository's evaluator. Err = panic.
#[allow(clippy::too_many_arguments)]
fn eval_node(
    gv: &GraphView,
    node: usize,
    deps: &[PV],
    ev: &mut SimpleEvaluator,
    cfg: &RunCfg,
    p: usize,
    address: Option<&dyn Fn(usize) -> u64>,
    oracle: Option<&std::cell::RefCell<dyn RandomOracle + '_>>,
    res: &mut RunResult,
) -> Result<PV, String> {
    let ni = &gv.nodes[node];
    match &ni.op {
        Operation::NOP => return Ok(deps[0].clone()),
        Operation::CreateTuple | Operation::CreateNamedTuple(_) | Operation::CreateVector(_) => {
            return Ok(PV::Tup(deps.to_vec()));
        }
        Operation::TupleGet(i) => return Ok(deps[0].child(*i as usize)),
        Operation::NamedTupleGet(name) => {
            let dt = &gv.nodes[ni.deps[0]].ty;
            if let Type::NamedTuple(nts) = dt {
                if let Some(i) = nts.iter().position(|(n, _)| n == name) {
                    return Ok(deps[0].child(i));
                }
            }
            return Ok(PV::Poison("named tuple get on a non-named-tuple".into()));
        }
        Operation::VectorGet => {
            let it = &gv.nodes[ni.deps[1]].ty;
            match &deps[1] {
                PV::Leaf(iv) => {
                    if let Some(i) = idx_from_value(iv, it) {
                        let c = deps[0].child(i);
                        if let PV::Poison(ref m) = c {
                            if &**m == "child index out of range" {
                                // a runtime error of the real evaluator (index out of range)
                                res.faults.eval_errors += 1;
                            }
                        }
                        return Ok(c);
                    }
                    return Ok(PV::Poison("vector index is not a scalar".into()));
                }
                other => return Ok(PV::Poison(other.first_poison().unwrap_or_else(|| "index not a leaf".into()))),
            }
        }
        Operation::Repeat(k) => return Ok(PV::Tup(vec![deps[0].clone(); *k as usize])),
        Operation::Zip => {
            let mut cols = vec![];
            for d in deps {
                match d.children() {
                    Some(c) => cols.push(c),
                    None => return Ok(PV::Poison(d.first_poison().unwrap_or_else(|| "zip of non-vector".into()))),
                }
            }
            let len = cols.iter().map(|c| c.len()).min().unwrap_or(0);
            let rows: Vec<PV> = (0..len).map(|i| PV::Tup(cols.iter().map(|c| c[i].clone()).collect())).collect();
            return Ok(PV::Tup(rows));
        }
        _ => {}
    }
    let mut vals = Vec::with_capacity(deps.len());
    for d in deps {
        match d.to_value() {
            Some(v) => vals.push(v),
            None => return Ok(PV::Poison(d.first_poison().unwrap())),
        }
    }
    if let Operation::PRF(iv, _) | Operation::PermutationFromPRF(iv, _) = &ni.op {
        res.prf_queries.push((p, node, crate::vals::value_hash(&vals[0]), *iv));
    }
    if let Some(or) = oracle {
        match &ni.op {
            Operation::Random(t) => {
                if let Some(v) = or.borrow_mut().random(p, node, t) {
                    return Ok(PV::Leaf(v));
                }
            }
            Operation::PRF(iv, t) => {
                if let Some(v) = or.borrow_mut().prf(p, node, &vals[0], *iv, t) {
                    return Ok(PV::Leaf(v));
                }
            }
            _ => {}
        }
    }
    let node_h = ni.node.clone();
    let r = if cfg.addressed && ni.is_randomizing() {
        let addr = address.map(|f| f(node)).unwrap_or(node as u64);
        let mut fresh = mk_eval(cfg.tapes[if cfg.shared_tape { 0 } else { p }], mix64(addr ^ 0xADD7_E55E_D000_0000));
        guarded(|| fresh.evaluate_node(node_h, vals))
    } else {
        guarded(|| ev.evaluate_node(node_h, vals))
    };
    match r {
        Err(panic_msg) => Err(panic_msg),
        Ok(Ok(v)) => {
            if ni.is_randomizing() {
                let slot = p.min(res.random_draws.len() - 1);
                res.random_draws[slot].push((node, crate::vals::value_hash(&v)));
            }
            Ok(PV::Leaf(v))
        }
        Ok(Err(e)) => {
            res.faults.eval_errors += 1;
            let msg = crate::dsl::es(e);
            if res.first_errors.len() < 4 {
                res.first_errors.push((p, node, msg.clone()));
            }
            Ok(PV::Poison(msg.into()))
        }
    }
}

/// Split a PV of a tuple type into typed children for reporting.
pub fn render_pv(t: &Type, v: &PV) -> serde_json::Value {
    match v {
        PV::Poison(c) => serde_json::json!({ "poison": &**c }),
        PV::Leaf(val) => crate::vals::render(t, val),
        PV::Tup(cs) => {
            if crate::vals::is_leaf_type(t) {
                return serde_json::json!("<tuple value for leaf type>");
            }
            let cts = children_types(t);
            serde_json::Value::Array(
                cs.iter().enumerate().map(|(i, c)| if i < cts.len() { render_pv(&cts[i], c) } else { serde_json::json!("?") }).collect(),
            )
        }
    }
}

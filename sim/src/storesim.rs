//! storesim (C12): writer -> simulated byte store with a fault injector -> reader under catch_unwind.

use crate::dsl::{es, Step};
use crate::exec::{compile_case, CompileOutcome};
use crate::gen::{gen_case, GenCfg};
use crate::harness::{run_cases, write_evidence, write_replay, Args, EvidenceOut, Tier};
use crate::rng::Rng;
use crate::trisim::guarded;
use crate::vals::random_value;
use crate::wellformed::check_context;
use ciphercore_base::custom_ops::run_instantiation_pass;
use ciphercore_base::data_values::Value;
use ciphercore_base::evaluators::Evaluator;
use ciphercore_base::graphs::{contexts_deep_equal, Context, GraphAnnotation, NodeAnnotation, Operation};
use ciphercore_base::inline::inline_ops::inline_operations;
use serde::{Deserialize, Serialize};
use std::collections::BTreeMap;

#[derive(Clone, Debug, Serialize, Deserialize)]
pub enum Fault {
    Truncate(usize),
    BitFlips(Vec<(usize, u8)>),
    ZeroRange(usize, usize),
    DupBlock(usize, usize),
    DropBlock(usize, usize),
    /// structured corruption of the inner payload: the resulting full text is stored
    Structured(String),
    /// torn write: the first `i` bytes of the new text were written over an older file whose content (from byte
    /// `j` on) survives: new[..i] ++ old[j..]
    Torn(usize, usize, String),
}

impl Fault {
    pub fn kind(&self) -> &'static str {
        match self {
            Fault::Truncate(_) => "truncate",
            Fault::BitFlips(_) => "bitflip",
            Fault::ZeroRange(_, _) => "zero-range",
            Fault::DupBlock(_, _) => "dup-block",
            Fault::DropBlock(_, _) => "drop-block",
            Fault::Structured(_) => "structured",
            Fault::Torn(_, _, _) => "torn-write",
        }
    }
    pub fn apply(&self, text: &[u8]) -> Vec<u8> {
        let n = text.len();
        match self {
            Fault::Truncate(k) => text[..(*k).min(n)].to_vec(),
            Fault::BitFlips(fs) => {
                let mut t = text.to_vec();
                for (o, b) in fs {
                    if *o < n {
                        t[*o] ^= 1 << (b % 8);
                    }
                }
                t
            }
            Fault::ZeroRange(a, l) => {
                let mut t = text.to_vec();
                for i in *a..(*a + *l).min(n) {
                    t[i] = 0;
                }
                t
            }
            Fault::DupBlock(a, l) => {
                let a = (*a).min(n);
                let e = (a + *l).min(n);
                let mut t = text[..e].to_vec();
                t.extend_from_slice(&text[a..e]);
                t.extend_from_slice(&text[e..]);
                t
            }
            Fault::DropBlock(a, l) => {
                let a = (*a).min(n);
                let e = (a + *l).min(n);
                let mut t = text[..a].to_vec();
                t.extend_from_slice(&text[e..]);
                t
            }
            Fault::Structured(s) => s.as_bytes().to_vec(),
            Fault::Torn(i, j, old) => {
                let ob = old.as_bytes();
                let mut t = text[..(*i).min(n)].to_vec();
                t.extend_from_slice(&ob[(*j).min(ob.len())..]);
                t
            }
        }
    }
}

#[derive(Clone, Debug, Serialize, Deserialize)]
pub struct StoreReplay {
    pub property: String,
    pub engine: String,
    pub seed: u64,
    pub case_index: u64,
    pub stage: String,
    /// the valid serialisation the writer produced
    pub original_text: String,
    pub fault: Option<Fault>,
    pub class: String,
    pub detail: String,
}

/// Harness survival guard (stated limit, DESIGN §4 C12): parameters of custom operations (iteration counts,
/// precisions, log-bucket counts) decide how much graph their instantiation builds while the context is
/// being rebuilt. A corrupted value such as approximation_log_buckets = 55 asks for 2^55 table entries;
/// memory exhaustion aborts the process instead of unwinding, which would kill the check itself. Texts
/// that still parse as JSON and carry such a parameter (> 40) inside a custom-operation body are not fed
/// to the reader; they are counted.
fn has_oversized_custom_parameter(text: &str) -> bool {
    fn walk(v: &serde_json::Value, in_custom: bool) -> bool {
        match v {
            serde_json::Value::Number(n) => in_custom && n.as_u64().map(|x| x > 40).unwrap_or(true),
            serde_json::Value::Array(a) => a.iter().any(|c| walk(c, in_custom)),
            serde_json::Value::Object(o) => o.iter().any(|(k, c)| walk(c, in_custom || k == "Custom")),
            _ => false,
        }
    }
    if !text.contains("Custom") {
        return false;
    }
    let outer: serde_json::Value = match serde_json::from_str(text) {
        Ok(v) => v,
        Err(_) => return false,
    };
    let inner_s = match outer.get("data").and_then(|d| d.as_str()) {
        Some(s) => s,
        None => return false,
    };
    match serde_json::from_str::<serde_json::Value>(inner_s) {
        Ok(inner) => walk(&inner, false),
        Err(_) => false,
    }
}

/// Outcome of reading `bytes`: Ok(None) = property held; Ok(Some(..)) = violation (class, detail)
pub fn read_and_check(bytes: &[u8], stats: &mut BTreeMap<String, u64>) -> Option<(String, String)> {
    let text = match std::str::from_utf8(bytes) {
        Ok(t) => t.to_string(),
        Err(_) => {
            // a reader of text gets lossy text
            String::from_utf8_lossy(bytes).to_string()
        }
    };
    if has_oversized_custom_parameter(&text) {
        *stats.entry("read:skipped(oversized custom-op parameter)".into()).or_insert(0) += 1;
        return None;
    }
    let r = guarded(|| serde_json::from_str::<Context>(&text));
    match r {
        Err(p) => Some(("deserialise-panic".into(), format!("from_str panicked: {}", p))),
        Ok(Err(_)) => {
            *stats.entry("read:error".into()).or_insert(0) += 1;
            None
        }
        Ok(Ok(ctx)) => {
            *stats.entry("read:ok".into()).or_insert(0) += 1;
            match guarded(|| check_context(&ctx)) {
                Err(p) => return Some(("wellformed-check-panic".into(), format!("invariant check panicked (getter panic): {}", p))),
                Ok(Err(e)) => return Some(("ill-formed-context".into(), e)),
                Ok(Ok(())) => {}
            }
            let text2 = match guarded(|| serde_json::to_string(&ctx)) {
                Err(p) => return Some(("reserialise-panic".into(), p)),
                Ok(Err(e)) => return Some(("reserialise-error".into(), e.to_string())),
                Ok(Ok(t)) => t,
            };
            // an accepted context must be usable: evaluating it (when it is finalized and has a
            // main graph) returns a value or an error, never a panic
            let h = crate::rng::hash_str(&text2);
            if h % 4 == 0 {
                let mut r = Rng::new(h);
                if !small_enough(&ctx) {
                    *stats.entry("read:ok:too-large-to-evaluate".into()).or_insert(0) += 1;
                } else if let Some(ins) = main_input_values(&ctx, &mut r) {
                    *stats.entry("read:ok:evaluated".into()).or_insert(0) += 1;
                    if let Err(p) = evaluate_ctx(&ctx, &ins, 1) {
                        return Some(("accepted-context-evaluation-panic".into(), format!("evaluating the accepted context panicked: {}", p)));
                    }
                }
            }
            None
        }
    }
}

fn evaluate_ctx(ctx: &Context, inputs: &[Value], seed: u64) -> Result<Result<Value, String>, String> {
    let c = ctx.clone();
    let ins = inputs.to_vec();
    guarded(move || {
        let inst = run_instantiation_pass(c).map_err(es)?.get_context();
        let mut ev = crate::exec::det_evaluator(seed);
        ev.evaluate_context(inst, ins).map_err(es)
    })
}

/// Evaluation is attempted only when every node of the context is small (a corrupted shape can be
/// astronomically large and allocation failure aborts the process instead of unwinding).
fn small_enough(ctx: &Context) -> bool {
    let mut total: u64 = 0;
    for g in ctx.get_graphs() {
        for n in g.get_nodes() {
            match n.get_type().ok().and_then(|t| ciphercore_base::data_types::get_size_in_bits(t).ok()) {
                Some(b) if b <= 1 << 20 => total = total.saturating_add(b),
                _ => return false,
            }
            if let Operation::Repeat(k) = n.get_operation() {
                if k > 1000 {
                    return false;
                }
            }
        }
    }
    total <= 1 << 24
}

fn main_input_values(ctx: &Context, rng: &mut Rng) -> Option<Vec<Value>> {
    let g = ctx.get_main_graph().ok()?;
    let mut v = vec![];
    for n in g.get_nodes() {
        if let Operation::Input(t) = n.get_operation() {
            v.push(random_value(&t, rng));
        }
    }
    Some(v)
}

pub struct Written {
    pub ctx: Context,
    pub stage: &'static str,
}

/// The writer: a context at a seeded stage of the pipeline, with names and annotations.
pub fn write_context(rng: &mut Rng) -> Option<Written> {
    let cfg = GenCfg::swarm(rng);
    let mut case = gen_case(&cfg, rng)?;
    // decorate with names and every annotation kind
    let ng = case.prog.graphs.len();
    for (gi, g) in case.prog.graphs.iter_mut().enumerate() {
        let n = g.steps.len();
        if rng.chance(1, 2) {
            g.graph_name = Some(format!("graph_{}_{}", gi, rng.below(1000)));
        }
        for i in 0..n {
            if rng.chance(1, 4) {
                g.node_names.push((i, format!("n{}_{}", i, rng.below(100))));
            }
            if rng.chance(1, 6) {
                let a = match rng.below(7) {
                    0 => NodeAnnotation::AssociativeOperation,
                    1 => NodeAnnotation::Private,
                    2 => NodeAnnotation::Send(rng.below(3), rng.below(3)),
                    3 => NodeAnnotation::PRFMultiplication,
                    4 => NodeAnnotation::PRFB2A,
                    5 => NodeAnnotation::PRFTruncate,
                    _ => NodeAnnotation::MpcCall,
                };
                g.node_annotations.push((i, a));
            }
        }
        if gi + 1 < ng && rng.chance(1, 4) {
            g.annotations.push(match rng.below(3) {
                0 => GraphAnnotation::AssociativeOperation,
                1 => GraphAnnotation::OneBitState,
                _ => GraphAnnotation::SmallState,
            });
        }
    }
    // constants of container types (vector / tuple / named tuple of arrays), left dangling in the main graph
    if rng.chance(1, 3) {
        use ciphercore_base::data_types::{named_tuple_type, tuple_type, vector_type};
        let g = case.prog.main_mut();
        for _ in 0..1 + rng.usize_below(2) {
            let et = crate::gen::mk_type(&crate::gen::pick_shape(4, rng), crate::gen::ALL_ST[rng.usize_below(11)]);
            let t = match rng.below(4) {
                0 => vector_type(1 + rng.below(4), et),
                1 => tuple_type(vec![et.clone(), vector_type(2 + rng.below(2), et)]),
                2 => named_tuple_type(vec![("a".to_string(), et.clone()), ("b".to_string(), vector_type(3, et))]),
                _ => vector_type(2, tuple_type(vec![et.clone(), et])),
            };
            let v = crate::vals::random_value(&t, rng);
            g.steps.push(Step { op: Operation::Constant(t, v), deps: vec![], gdeps: vec![] });
        }
    }
    let stage = rng.weighted(&[3, 2, 2, 2, 3, 1, 2, 1]);
    if stage == 6 {
        return custom_op_zoo(rng);
    }
    if stage == 7 {
        // a caller graph created BEFORE its callee (graph ids out of creation order). The API refuses the call (callees
        // must be older); should it ever accept it, the resulting context must still survive a round trip.
        let ctx = ciphercore_base::graphs::create_context().ok()?;
        let caller = ctx.create_graph().ok()?;
        let callee = ctx.create_graph().ok()?;
        let t = crate::gen::mk_type(&crate::gen::pick_shape(8, rng), crate::gen::ALL_ST[rng.usize_below(11)]);
        let a = callee.input(t.clone()).ok()?;
        callee.set_output_node(callee.add(a.clone(), a).ok()?).ok()?;
        callee.finalize().ok()?;
        let x = caller.input(t).ok()?;
        return match caller.call(callee.clone(), vec![x.clone()]) {
            Ok(r) => {
                caller.set_output_node(r).ok()?;
                caller.finalize().ok()?;
                ctx.set_main_graph(caller).ok()?;
                ctx.finalize().ok()?;
                Some(Written { ctx, stage: "caller-older-than-callee" })
            }
            Err(_) => {
                // the usual outcome: finish the context in the legal order instead (callee first is impossible now, so
                // the caller simply does not call)
                caller.set_output_node(x).ok()?;
                caller.finalize().ok()?;
                ctx.set_main_graph(caller).ok()?;
                ctx.finalize().ok()?;
                Some(Written { ctx, stage: "two-graphs-no-call" })
            }
        };
    }
    match stage {
        0 => Some(Written { ctx: case.prog.build().ok()?.context, stage: "plain" }),
        1 => {
            let c = case.prog.build().ok()?.context;
            Some(Written { ctx: run_instantiation_pass(c).ok()?.get_context(), stage: "instantiated" })
        }
        2 => {
            let c = case.prog.build().ok()?.context;
            let i = run_instantiation_pass(c).ok()?.get_context();
            Some(Written { ctx: inline_operations(&i, case.inline.config()).ok()?.get_context(), stage: "inlined" })
        }
        3 => {
            // unoptimised compiled context
            for g in case.prog.graphs.iter_mut() {
                g.node_annotations.clear();
                g.annotations.clear();
            }
            let c = case.prog.build().ok()?.context;
            let i = run_instantiation_pass(c).ok()?.get_context();
            let inl = inline_operations(&i, case.inline.config()).ok()?.get_context();
            let owners = case.owners.iter().map(|o| o.to_io()).collect();
            let outs = case.outputs.iter().map(|p| ciphercore_base::mpc::mpc_compiler::IOStatus::Party(*p as u64)).collect();
            let m = ciphercore_base::mpc::mpc_compiler::prepare_for_mpc_evaluation(&inl, vec![owners], vec![outs], case.inline.config()).ok()?;
            Some(Written { ctx: m.get_context(), stage: "compiled-unoptimised" })
        }
        4 => {
            for g in case.prog.graphs.iter_mut() {
                g.node_annotations.clear();
                g.annotations.clear();
            }
            match compile_case(&case) {
                CompileOutcome::Ok(c) => Some(Written { ctx: c.compiled, stage: "compiled-optimised" }),
                _ => None,
            }
        }
        _ => {
            // unfinalized context: last graph left open
            let ctx = ciphercore_base::graphs::create_context().ok()?;
            let g = ctx.create_graph().ok()?;
            let t = crate::gen::mk_type(&crate::gen::pick_shape(8, rng), crate::gen::ALL_ST[rng.usize_below(11)]);
            let a = g.input(t.clone()).ok()?;
            let b = g.add(a.clone(), a.clone()).ok()?;
            if rng.chance(1, 2) {
                b.set_name("b").ok()?;
            }
            if rng.chance(1, 2) {
                g.set_output_node(b).ok()?;
            }
            if rng.chance(1, 2) {
                g.finalize().ok()?;
                if rng.chance(1, 2) {
                    ctx.set_main_graph(g).ok()?;
                }
            }
            Some(Written { ctx, stage: "unfinalized" })
        }
    }
}

/// A context holding (almost) every library custom operation with seeded, non-default parameters.
/// Operations whose type check rejects the chosen arguments are skipped.
pub fn custom_op_zoo(rng: &mut Rng) -> Option<Written> {
    use ciphercore_base::custom_ops::{CustomOperation, Not, Or};
    use ciphercore_base::data_types::{array_type, named_tuple_type, scalar_type, BIT, INT64};
    use ciphercore_base::ops::adder::BinaryAdd;
    use ciphercore_base::ops::auc::AucScore;
    use ciphercore_base::ops::clip::Clip2K;
    use ciphercore_base::ops::comparisons::{Equal, GreaterThan, GreaterThanEqualTo, LessThan, LessThanEqualTo, NotEqual};
    use ciphercore_base::ops::fixed_precision::fixed_multiply::FixedMultiply;
    use ciphercore_base::ops::fixed_precision::fixed_precision_config::FixedPrecisionConfig;
    use ciphercore_base::ops::goldschmidt_division::GoldschmidtDivision;
    use ciphercore_base::ops::integer_key_sort::SortByIntegerKey;
    use ciphercore_base::ops::inverse_sqrt::InverseSqrt;
    use ciphercore_base::ops::long_division::LongDivision;
    use ciphercore_base::ops::min_max::{Max, Min};
    use ciphercore_base::ops::multiplexer::Mux;
    use ciphercore_base::ops::newton_inversion::NewtonInversion;
    use ciphercore_base::ops::pwl::approx_exponent::ApproxExponent;
    use ciphercore_base::ops::pwl::approx_gelu::ApproxGelu;
    use ciphercore_base::ops::pwl::approx_gelu_derivative::ApproxGeluDerivative;
    use ciphercore_base::ops::pwl::approx_sigmoid::ApproxSigmoid;
    use ciphercore_base::ops::taylor_exponent::TaylorExponent;
    let ctx = ciphercore_base::graphs::create_context().ok()?;
    let g = ctx.create_graph().ok()?;
    let n = 2 + rng.below(3);
    let x = g.input(array_type(vec![n], INT64)).ok()?;
    let y = g.input(array_type(vec![n], INT64)).ok()?;
    let bx = g.a2b(x.clone()).ok()?;
    let by = g.a2b(y.clone()).ok()?;
    let sel = g.input(array_type(vec![n, 1], BIT)).ok()?;
    let table = g.create_named_tuple(vec![("key".to_string(), x.clone()), ("v".to_string(), y.clone())]).ok()?;
    let _ = (named_tuple_type(vec![]), scalar_type(BIT));
    let b = |rng: &mut Rng| rng.chance(1, 2);
    let fp = |rng: &mut Rng| FixedPrecisionConfig { fractional_bits: 3 + rng.below(20), debug: rng.chance(1, 2) };
    let mut outs = vec![];
    let ops: Vec<(CustomOperation, Vec<ciphercore_base::graphs::Node>)> = vec![
        (CustomOperation::new(Not {}), vec![bx.clone()]),
        (CustomOperation::new(Or {}), vec![bx.clone(), by.clone()]),
        (CustomOperation::new(GreaterThan { signed_comparison: b(rng) }), vec![bx.clone(), by.clone()]),
        (CustomOperation::new(LessThan { signed_comparison: b(rng) }), vec![bx.clone(), by.clone()]),
        (CustomOperation::new(GreaterThanEqualTo { signed_comparison: b(rng) }), vec![bx.clone(), by.clone()]),
        (CustomOperation::new(LessThanEqualTo { signed_comparison: b(rng) }), vec![bx.clone(), by.clone()]),
        (CustomOperation::new(Equal {}), vec![bx.clone(), by.clone()]),
        (CustomOperation::new(NotEqual {}), vec![bx.clone(), by.clone()]),
        (CustomOperation::new(Min { signed_comparison: b(rng) }), vec![bx.clone(), by.clone()]),
        (CustomOperation::new(Max { signed_comparison: b(rng) }), vec![bx.clone(), by.clone()]),
        (CustomOperation::new(Mux {}), vec![sel.clone(), bx.clone(), by.clone()]),
        (CustomOperation::new(Clip2K { k: rng.below(40) }), vec![bx.clone()]),
        (CustomOperation::new(BinaryAdd { overflow_bit: b(rng) }), vec![bx.clone(), by.clone()]),
        (CustomOperation::new(SortByIntegerKey { key: "key".into() }), vec![table.clone()]),
        (CustomOperation::new(LongDivision { signed: b(rng) }), vec![x.clone(), y.clone()]),
        (CustomOperation::new(NewtonInversion { iterations: 1 + rng.below(6), denominator_cap_2k: 5 + rng.below(20) }), vec![x.clone()]),
        (CustomOperation::new(InverseSqrt { iterations: 1 + rng.below(6), denominator_cap_2k: 5 + rng.below(20) }), vec![x.clone()]),
        (CustomOperation::new(GoldschmidtDivision { iterations: 1 + rng.below(6), denominator_cap_2k: 5 + rng.below(20) }), vec![x.clone(), y.clone()]),
        (CustomOperation::new(TaylorExponent { taylor_terms: 2 + rng.below(6), fixed_precision_points: 4 + rng.below(12) }), vec![x.clone()]),
        (CustomOperation::new(ApproxExponent { precision: 4 + rng.below(16) }), vec![x.clone()]),
        (CustomOperation::new(ApproxGelu { precision: 4 + rng.below(16), approximation_log_buckets: 2 + rng.below(5) }), vec![x.clone()]),
        (CustomOperation::new(ApproxGeluDerivative { precision: 4 + rng.below(16), approximation_log_buckets: 2 + rng.below(5) }), vec![x.clone()]),
        (CustomOperation::new(ApproxSigmoid { precision: 4 + rng.below(16), approximation_log_buckets: 2 + rng.below(5) }), vec![x.clone()]),
        (CustomOperation::new(FixedMultiply { config: fp(rng) }), vec![x.clone(), y.clone()]),
        (CustomOperation::new(AucScore { fp: fp(rng) }), vec![x.clone(), y.clone()]),
    ];
    let mut order: Vec<usize> = (0..ops.len()).collect();
    rng.shuffle(&mut order);
    let keep = 3 + rng.usize_below(ops.len() - 2);
    for i in order.into_iter().take(keep) {
        let (op, args) = &ops[i];
        if let Ok(Ok(nd)) = guarded(|| g.custom_op(op.clone(), args.clone())) {
            outs.push(nd);
        }
    }
    if outs.is_empty() {
        return None;
    }
    let out = g.create_tuple(outs).ok()?;
    g.set_output_node(out).ok()?;
    g.finalize().ok()?;
    ctx.set_main_graph(g).ok()?;
    ctx.finalize().ok()?;
    Some(Written { ctx, stage: "custom-op-zoo" })
}

fn has_multi_header_join(ctx: &Context) -> bool {
    ctx.get_graphs().iter().any(|g| {
        g.get_nodes().iter().any(|n| match n.get_operation() {
            Operation::Join(_, h) | Operation::JoinWithColumnMasks(_, h) => h.len() > 1,
            _ => false,
        })
    })
}

// --- structured corruption of the inner payload ---------------------------------------------

fn count_nodes(v: &serde_json::Value) -> usize {
    match v {
        serde_json::Value::Array(a) => 1 + a.iter().map(count_nodes).sum::<usize>(),
        serde_json::Value::Object(o) => 1 + o.values().map(count_nodes).sum::<usize>(),
        _ => 1,
    }
}

fn mutate_nth(v: &mut serde_json::Value, n: &mut usize, rng: &mut Rng, in_custom: bool) -> bool {
    if *n == 0 {
        if in_custom && v.is_number() {
            // parameters of custom operations (iteration counts, precisions) drive how much graph their
            // instantiation builds: an astronomically large count exhausts memory, which aborts the process
            // instead of unwinding. Only small replacements are injected there (stated limit, DESIGN §4 C12).
            let cur = v.as_u64().unwrap_or(0);
            // (e.g. approximation_log_buckets = 40 means 2^40 table entries)
            *v = serde_json::json!(match rng.below(4) {
                0 => 0,
                1 => cur.wrapping_add(1) % 12,
                2 => cur.saturating_sub(1).min(12),
                _ => rng.below(12),
            });
            return true;
        }
        mutate_here(v, rng);
        return true;
    }
    *n -= 1;
    match v {
        serde_json::Value::Array(a) => {
            for c in a.iter_mut() {
                if mutate_nth(c, n, rng, in_custom) {
                    return true;
                }
            }
            false
        }
        serde_json::Value::Object(o) => {
            for (k, c) in o.iter_mut() {
                if mutate_nth(c, n, rng, in_custom || k == "Custom") {
                    return true;
                }
            }
            false
        }
        _ => false,
    }
}

fn mutate_here(v: &mut serde_json::Value, rng: &mut Rng) {
    use serde_json::Value as J;
    let nv = match v {
        J::Number(x) => {
            let cur = x.as_u64().unwrap_or(0);
            match rng.below(9) {
                0 => serde_json::json!(0),
                1 => serde_json::json!(cur.wrapping_add(1)),
                2 => serde_json::json!(cur.wrapping_sub(1)),
                3 => serde_json::json!(u64::MAX),
                4 => serde_json::json!(1u64 << 63),
                5 => serde_json::json!(-1),
                6 => serde_json::from_str("1.5").unwrap(),
                7 => serde_json::from_str("340282366920938463463374607431768211456").unwrap_or(serde_json::json!(7)),
                _ => serde_json::json!(cur.wrapping_add(1 + rng.below(1000))),
            }
        }
        J::String(s) => match rng.below(5) {
            0 => J::String(String::new()),
            1 => J::String(format!("{}x", s)),
            2 => J::String("Add".into()),
            3 => serde_json::json!(3),
            _ => J::String(s.chars().rev().collect()),
        },
        J::Bool(b) => J::Bool(!*b),
        J::Null => serde_json::json!(rng.below(5)),
        J::Array(a) => {
            let mut a = a.clone();
            match rng.below(5) {
                0 => {
                    if !a.is_empty() {
                        let i = rng.usize_below(a.len());
                        a.remove(i);
                    }
                }
                1 => {
                    if !a.is_empty() {
                        let i = rng.usize_below(a.len());
                        let x = a[i].clone();
                        a.push(x);
                    }
                }
                2 => {
                    if a.len() >= 2 {
                        let i = rng.usize_below(a.len());
                        let j = rng.usize_below(a.len());
                        a.swap(i, j);
                    }
                }
                3 => a.clear(),
                _ => a.push(serde_json::json!(rng.below(10))),
            }
            J::Array(a)
        }
        J::Object(o) => {
            let mut o = o.clone();
            let keys: Vec<String> = o.keys().cloned().collect();
            if !keys.is_empty() {
                let k = rng.pick(&keys).clone();
                match rng.below(3) {
                    0 => {
                        o.remove(&k);
                    }
                    1 => {
                        if let Some(x) = o.remove(&k) {
                            o.insert(format!("{}_", k), x);
                        }
                    }
                    _ => {
                        o.insert(k, J::Null);
                    }
                }
            }
            J::Object(o)
        }
    };
    *v = nv;
}

/// Targeted corruption of the id tables and pointers named in the property.
fn targeted(inner: &mut serde_json::Value, rng: &mut Rng) -> Option<&'static str> {
    let big = *rng.pick(&[1u64, 2, 7, 1000, u64::MAX, 1 << 40]);
    let ngraphs = inner.get("graphs")?.as_array()?.len() as u64;
    match rng.below(11) {
        9 | 10 => {
            // the declared type of a constant no longer matches its stored value: a vector length or an array
            // dimension inside the type of a Constant operation is changed by one
            fn constant_types<'a>(v: &'a mut serde_json::Value, out: &mut Vec<&'a mut serde_json::Value>) {
                match v {
                    serde_json::Value::Object(o) => {
                        for (k, c) in o.iter_mut() {
                            if k == "Constant" {
                                if let serde_json::Value::Array(a) = c {
                                    if a.len() == 2 {
                                        if let Some(t) = a.get_mut(0) {
                                            out.push(t);
                                        }
                                        continue;
                                    }
                                }
                            } else {
                                constant_types(c, out);
                            }
                        }
                    }
                    serde_json::Value::Array(a) => {
                        for c in a.iter_mut() {
                            constant_types(c, out);
                        }
                    }
                    _ => {}
                }
            }
            fn numbers<'a>(v: &'a mut serde_json::Value, out: &mut Vec<&'a mut serde_json::Value>) {
                match v {
                    serde_json::Value::Number(_) => out.push(v),
                    serde_json::Value::Array(a) => {
                        for c in a.iter_mut() {
                            numbers(c, out);
                        }
                    }
                    serde_json::Value::Object(o) => {
                        for (_, c) in o.iter_mut() {
                            numbers(c, out);
                        }
                    }
                    _ => {}
                }
            }
            let mut cts = vec![];
            constant_types(inner, &mut cts);
            if cts.is_empty() {
                return None;
            }
            let k = rng.usize_below(cts.len());
            let t = cts.swap_remove(k);
            let mut nums = vec![];
            numbers(t, &mut nums);
            if nums.is_empty() {
                return None;
            }
            let k = rng.usize_below(nums.len());
            let cur = nums[k].as_u64()?;
            *nums[k] = serde_json::json!(if cur > 0 && rng.chance(1, 2) { cur - 1 } else { cur + 1 });
            Some("constant-type-shape")
        }
        0 => {
            inner["main_graph"] = serde_json::json!(ngraphs + big.min(u64::MAX - ngraphs));
            Some("main-graph-out-of-range")
        }
        1 => {
            let gs = inner.get_mut("graphs")?.as_array_mut()?;
            let gi = rng.usize_below(gs.len());
            let nn = gs[gi].get("nodes")?.as_array()?.len() as u64;
            gs[gi]["output_node"] = serde_json::json!(nn.saturating_add(big.min(u64::MAX - nn)));
            Some("output-node-out-of-range")
        }
        2 => {
            let t = inner.get_mut("nodes_names")?.as_array_mut()?;
            t.push(serde_json::json!([[ngraphs.saturating_add(big.min(1000)), 0], "ghost"]));
            Some("node-name-bad-graph-id")
        }
        3 => {
            let t = inner.get_mut("nodes_names")?.as_array_mut()?;
            t.push(serde_json::json!([[0, big.max(100000)], "ghost"]));
            Some("node-name-bad-node-id")
        }
        4 => {
            let t = inner.get_mut("nodes_annotations")?.as_array_mut()?;
            t.push(serde_json::json!([[ngraphs.saturating_add(big.min(1000)), 0], ["Private"]]));
            Some("node-annotation-bad-graph-id")
        }
        5 => {
            let t = inner.get_mut("nodes_annotations")?.as_array_mut()?;
            t.push(serde_json::json!([[0, big.max(100000)], ["Private"]]));
            Some("node-annotation-bad-node-id")
        }
        6 => {
            let t = inner.get_mut("graphs_annotations")?.as_array_mut()?;
            t.push(serde_json::json!([ngraphs.saturating_add(big.min(1000)), ["OneBitState"]]));
            Some("graph-annotation-bad-id")
        }
        7 => {
            let t = inner.get_mut("graphs_names")?.as_array_mut()?;
            t.push(serde_json::json!([ngraphs.saturating_add(big.min(1000)), "ghost"]));
            Some("graph-name-bad-id")
        }
        _ => {
            // dangling dependency
            let gs = inner.get_mut("graphs")?.as_array_mut()?;
            let gi = rng.usize_below(gs.len());
            let ns = gs[gi].get_mut("nodes")?.as_array_mut()?;
            if ns.is_empty() {
                return None;
            }
            let ni = rng.usize_below(ns.len());
            let which = if rng.chance(1, 2) { "node_dependencies" } else { "graph_dependencies" };
            let deps = ns[ni].get_mut(which)?.as_array_mut()?;
            // a dangling reference: the node itself, a later node, or far out of range
            let limit = if which == "node_dependencies" { ni as u64 } else { gi as u64 };
            let v = match rng.below(3) {
                0 => limit,
                1 => limit + 1,
                _ => big.max(limit + 2),
            };
            if deps.is_empty() {
                deps.push(serde_json::json!(v));
            } else {
                let k = rng.usize_below(deps.len());
                deps[k] = serde_json::json!(v);
            }
            Some("dangling-dependency")
        }
    }
}

/// Element boundaries of a serialised text: positions of the opening brace of `},{` with the bracket depth there.
/// A torn write that lands on boundaries of equal depth gives a text that still parses as JSON but mixes the tables
/// of two contexts.
fn element_boundaries(t: &[u8]) -> Vec<(usize, i32)> {
    let mut v = vec![];
    let mut d = 0i32;
    for p in 0..t.len() {
        match t[p] {
            b'{' | b'[' => {
                if t[p] == b'{' && p >= 2 && t[p - 1] == b',' && t[p - 2] == b'}' {
                    v.push((p, d));
                }
                d += 1;
            }
            b'}' | b']' => d -= 1,
            _ => {}
        }
    }
    v
}

fn torn_fault(new: &[u8], old: &str, rng: &mut Rng) -> Fault {
    let ob = old.as_bytes();
    if rng.chance(1, 4) || new.is_empty() || ob.is_empty() {
        // same offset in both files (the file system wrote a prefix of the new content)
        let k = rng.usize_below(new.len().max(1));
        return Fault::Torn(k, k, old.to_string());
    }
    let a = element_boundaries(new);
    let b = element_boundaries(ob);
    if a.is_empty() || b.is_empty() {
        let k = rng.usize_below(new.len());
        return Fault::Torn(k, k, old.to_string());
    }
    for _ in 0..8 {
        let (i, d) = *rng.pick(&a);
        let same: Vec<usize> = b.iter().filter(|(_, e)| *e == d).map(|(j, _)| *j).collect();
        if !same.is_empty() {
            return Fault::Torn(i, *rng.pick(&same), old.to_string());
        }
    }
    let (i, _) = *rng.pick(&a);
    let (j, _) = *rng.pick(&b);
    Fault::Torn(i, j, old.to_string())
}

pub fn structured_fault(text: &str, rng: &mut Rng) -> Option<(Fault, String)> {
    let mut outer: serde_json::Value = serde_json::from_str(text).ok()?;
    match rng.below(10) {
        0 => {
            outer["version"] = match rng.below(4) {
                0 => serde_json::json!(1),
                1 => serde_json::json!(3),
                2 => serde_json::json!("2"),
                _ => serde_json::json!(u64::MAX),
            };
            Some((Fault::Structured(outer.to_string()), "wrong-version".into()))
        }
        1 => {
            outer["data"] = match rng.below(4) {
                0 => serde_json::json!(5),
                1 => serde_json::json!("{"),
                2 => serde_json::json!(""),
                _ => serde_json::json!("{\"finalized\":true}"),
            };
            Some((Fault::Structured(outer.to_string()), "bad-payload".into()))
        }
        2 => {
            // inner payload truncated but still a valid outer string
            let inner_s = outer.get("data")?.as_str()?.to_string();
            if inner_s.is_empty() {
                return None;
            }
            let mut k = rng.usize_below(inner_s.len());
            while !inner_s.is_char_boundary(k) {
                k -= 1;
            }
            outer["data"] = serde_json::json!(inner_s[..k].to_string());
            Some((Fault::Structured(outer.to_string()), "inner-truncated".into()))
        }
        3..=5 => {
            let inner_s = outer.get("data")?.as_str()?.to_string();
            let mut inner: serde_json::Value = serde_json::from_str(&inner_s).ok()?;
            let what = targeted(&mut inner, rng)?;
            outer["data"] = serde_json::json!(inner.to_string());
            Some((Fault::Structured(outer.to_string()), format!("targeted:{}", what)))
        }
        _ => {
            let inner_s = outer.get("data")?.as_str()?.to_string();
            let mut inner: serde_json::Value = serde_json::from_str(&inner_s).ok()?;
            let k = 1 + rng.usize_below(2);
            for _ in 0..k {
                let total = count_nodes(&inner);
                let mut n = rng.usize_below(total);
                mutate_nth(&mut inner, &mut n, rng, false);
            }
            outer["data"] = serde_json::json!(inner.to_string());
            Some((Fault::Structured(outer.to_string()), "tree-mutation".into()))
        }
    }
}

pub struct StoreOut {
    pub violation: Option<StoreReplay>,
    pub counts: BTreeMap<String, u64>,
    pub sample: Option<serde_json::Value>,
    pub distinct: Vec<u64>,
    pub reads: u64,
    pub exhaustive_texts: u64,
}

pub fn store_case(args: &Args, idx: usize, faults_per_case: usize, exhaustive_limit: usize) -> StoreOut {
    let mut rng = Rng::derive(args.seed, "C12", idx as u64);
    let mut out = StoreOut { violation: None, counts: BTreeMap::new(), sample: None, distinct: vec![], reads: 0, exhaustive_texts: 0 };
    let w = match guarded(|| write_context(&mut rng)) {
        Ok(Some(w)) => w,
        _ => {
            *out.counts.entry("writer:skipped".into()).or_insert(0) += 1;
            return out;
        }
    };
    *out.counts.entry(format!("stage:{}", w.stage)).or_insert(0) += 1;
    if std::env::var("VERIF_TRACE").is_ok() {
        eprintln!("TRACE case {} stage {}", idx, w.stage);
    }
    let mk = |class: &str, detail: String, text: &str, fault: Option<Fault>| StoreReplay {
        property: "C12".into(),
        engine: "storesim".into(),
        seed: args.seed,
        case_index: idx as u64,
        stage: w.stage.into(),
        original_text: text.to_string(),
        fault,
        class: class.into(),
        detail,
    };
    // ---- fault-free configuration -------------------------------------------------------
    let s1 = match guarded(|| serde_json::to_string(&w.ctx)) {
        Ok(Ok(s)) => s,
        Ok(Err(e)) => {
            out.violation = Some(mk("serialise-error", e.to_string(), "", None));
            return out;
        }
        Err(p) => {
            out.violation = Some(mk("serialise-panic", p, "", None));
            return out;
        }
    };
    let s1b = serde_json::to_string(&w.ctx).unwrap_or_default();
    if s1 != s1b {
        out.violation = Some(mk("serialise-twice-differs", "serialising the same context twice gives different text".into(), &s1, None));
        return out;
    }
    let ctx2 = match guarded(|| serde_json::from_str::<Context>(&s1)) {
        Ok(Ok(c)) => c,
        Ok(Err(e)) => {
            out.violation = Some(mk("roundtrip-error", format!("valid serialisation does not deserialise: {}", e), &s1, None));
            return out;
        }
        Err(p) => {
            out.violation = Some(mk("roundtrip-panic", p, &s1, None));
            return out;
        }
    };
    if !contexts_deep_equal(&w.ctx, &ctx2) {
        out.violation = Some(mk("roundtrip-not-deep-equal", "deserialised context is not deep-equal to the original".into(), &s1, None));
        return out;
    }
    if let Err(e) = check_context(&ctx2) {
        out.violation = Some(mk("roundtrip-ill-formed", e, &s1, None));
        return out;
    }
    // the serialised text is canonical: the reloaded (deep-equal) context serialises to the same text. The only
    // exception is a Join whose header map (a std HashMap inside the operation) has several entries.
    if serde_json::to_string(&ctx2).map(|s| s == s1).unwrap_or(false) {
        *out.counts.entry("probe:roundtrip-text-identical".into()).or_insert(0) += 1;
    } else if has_multi_header_join(&w.ctx) {
        *out.counts.entry("probe:roundtrip-text-differs(join-header-map-order)".into()).or_insert(0) += 1;
    } else {
        out.violation = Some(mk("roundtrip-text-differs", "a deep-equal reloaded context serialises to a different text: the serialised form is not canonical".into(), &s1, None));
        return out;
    }
    // evaluates identically
    if let Some(ins) = main_input_values(&w.ctx, &mut rng) {
        let eseed = rng.next_u64();
        let a = evaluate_ctx(&w.ctx, &ins, eseed);
        let b = evaluate_ctx(&ctx2, &ins, eseed);
        match (a, b) {
            (Ok(Ok(x)), Ok(Ok(y))) => {
                if x != y {
                    out.violation = Some(mk("roundtrip-evaluates-differently", "original and reloaded contexts evaluate to different values under the same seed".into(), &s1, None));
                    return out;
                }
                *out.counts.entry("probe:evaluated-identically".into()).or_insert(0) += 1;
            }
            (Ok(Err(_)), Ok(Err(_))) => {
                *out.counts.entry("probe:both-evaluations-error".into()).or_insert(0) += 1;
            }
            (Err(_), Err(_)) => {
                *out.counts.entry("probe:both-evaluations-panic(not-C12)".into()).or_insert(0) += 1;
            }
            (x, y) => {
                out.violation = Some(mk(
                    "roundtrip-evaluates-differently",
                    format!("one context evaluates, the other does not: {:?} vs {:?}", x.map(|r| r.map(|_| ())), y.map(|r| r.map(|_| ()))),
                    &s1,
                    None,
                ));
                return out;
            }
        }
    }
    out.distinct.push(crate::rng::hash_str(&s1));
    // ---- fault configurations -------------------------------------------------------------
    let bytes = s1.as_bytes();
    let n = bytes.len();
    let mut run_fault = |f: Fault, tag: String, out: &mut StoreOut| -> bool {
        let corrupted = f.apply(bytes);
        if corrupted == bytes {
            return false;
        }
        if std::env::var("VERIF_TRACE").is_ok() {
            let _ = std::fs::write("/tmp/last_fault.json", serde_json::to_string(&(idx, &tag, &f)).unwrap_or_default());
            let _ = std::fs::write("/tmp/last_text.txt", &corrupted);
        }
        out.reads += 1;
        *out.counts.entry(format!("fault:{}", tag)).or_insert(0) += 1;
        // faults whose result must be rejected (wrong version, broken payload, out-of-range ids, dangling dependencies)
        let must_reject = tag.starts_with("structured:wrong-version") || tag.starts_with("structured:bad-payload") || tag.starts_with("structured:inner-truncated") || (tag.starts_with("structured:targeted:") && tag != "structured:targeted:constant-type-shape");
        if must_reject {
            let text = String::from_utf8_lossy(&corrupted).to_string();
            if !has_oversized_custom_parameter(&text) {
                if let Ok(Ok(_)) = guarded(|| serde_json::from_str::<Context>(&text)) {
                    let d = format!("a text with {} was accepted by the deserializer", tag.trim_start_matches("structured:"));
                    if std::env::var("VERIF_COLLECT").is_ok() {
                        *out.counts.entry(format!("COLLECT:accepted-invalid-text:{}", d)).or_insert(0) += 1;
                    } else {
                        out.violation = Some(mk("accepted-invalid-text", d, &s1, Some(f)));
                        return true;
                    }
                }
            }
        }
        let ok_before = out.counts.get("read:ok").copied().unwrap_or(0);
        let verdict = read_and_check(&corrupted, &mut out.counts);
        if out.counts.get("read:ok").copied().unwrap_or(0) > ok_before {
            let kind = tag.split(':').next().unwrap_or("").to_string();
            *out.counts.entry(format!("accepted-after:{}", kind)).or_insert(0) += 1;
        }
        if let Some((class, detail)) = verdict {
            if std::env::var("VERIF_COLLECT").is_ok() {
                let key: String = detail.chars().take(160).collect();
                *out.counts.entry(format!("COLLECT:{}:{}", class, key)).or_insert(0) += 1;
                return false;
            }
            out.violation = Some(mk(&class, detail, &s1, Some(f)));
            return true;
        }
        false
    };
    if n <= exhaustive_limit {
        // fault enumeration: every truncation offset and every single-bit flip
        out.exhaustive_texts += 1;
        for k in 0..n {
            if run_fault(Fault::Truncate(k), "truncate".into(), &mut out) {
                return out;
            }
        }
        for o in 0..n {
            for b in 0..8u8 {
                if run_fault(Fault::BitFlips(vec![(o, b)]), "bitflip".into(), &mut out) {
                    return out;
                }
            }
        }
    }
    // the older file a torn write lands on: the serialisation of another context of this case's generator, or of
    // this context before/after a small change of the text
    let mut old_texts: Vec<String> = vec![];
    for _ in 0..faults_per_case {
        let (f, tag) = match rng.below(12) {
            10 | 11 => {
                if old_texts.is_empty() {
                    if let Ok(Some(w2)) = guarded(|| write_context(&mut rng)) {
                        if let Ok(t) = serde_json::to_string(&w2.ctx) {
                            old_texts.push(t);
                        }
                    }
                    if let Some((Fault::Structured(t), _)) = structured_fault(&s1, &mut rng) {
                        old_texts.push(t);
                    }
                    old_texts.push(s1.clone());
                }
                let old = rng.pick(&old_texts).clone();
                (torn_fault(bytes, &old, &mut rng), "torn-write".to_string())
            }
            0 => (Fault::Truncate(rng.usize_below(n)), "truncate".to_string()),
            1 | 2 => {
                let k = 1 + rng.usize_below(8);
                (Fault::BitFlips((0..k).map(|_| (rng.usize_below(n), rng.below(8) as u8)).collect()), "bitflip".to_string())
            }
            3 => (Fault::ZeroRange(rng.usize_below(n), 1 + rng.usize_below(64)), "zero-range".to_string()),
            4 => (Fault::DupBlock(rng.usize_below(n), 1 + rng.usize_below(200)), "dup-block".to_string()),
            5 => (Fault::DropBlock(rng.usize_below(n), 1 + rng.usize_below(200)), "drop-block".to_string()),
            _ => match structured_fault(&s1, &mut rng) {
                Some((f, tag)) => (f, format!("structured:{}", tag)),
                None => continue,
            },
        };
        if run_fault(f, tag, &mut out) {
            return out;
        }
    }
    out.sample = Some(serde_json::json!({"stage": w.stage, "text_bytes": n, "text_head": s1.chars().take(160).collect::<String>(), "faulted_reads": out.reads}));
    out
}

pub fn replay_store(rp: &StoreReplay) -> Option<(String, String)> {
    let mut st = BTreeMap::new();
    match &rp.fault {
        Some(f) => read_and_check(&f.apply(rp.original_text.as_bytes()), &mut st),
        None => {
            // fault-free class: re-run the round trip
            match guarded(|| serde_json::from_str::<Context>(&rp.original_text)) {
                Err(p) => Some(("roundtrip-panic".into(), p)),
                Ok(Err(e)) => Some(("roundtrip-error".into(), e.to_string())),
                Ok(Ok(c)) => check_context(&c).err().map(|e| ("roundtrip-ill-formed".to_string(), e)),
            }
        }
    }
}

fn minimise_store(mut rp: StoreReplay) -> StoreReplay {
    // fewer bit flips
    if let Some(Fault::BitFlips(fs)) = rp.fault.clone() {
        let mut cur = fs;
        let mut i = 0;
        while i < cur.len() && cur.len() > 1 {
            let mut cand = cur.clone();
            cand.remove(i);
            let mut c = rp.clone();
            c.fault = Some(Fault::BitFlips(cand.clone()));
            match replay_store(&c) {
                Some((cl, _)) if cl == rp.class => cur = cand,
                _ => i += 1,
            }
        }
        rp.fault = Some(Fault::BitFlips(cur));
    }
    rp
}

pub fn run_c12(args: &Args) -> i32 {
    let t0 = std::time::Instant::now();
    let (n, fpc, exh) = match args.tier {
        Tier::Quick => (args.cases.unwrap_or(1500), 60, 2500),
        Tier::Thorough => (args.cases.unwrap_or(20000), 150, 6000),
    };
    let results = run_cases(n, args.threads, |r: &StoreOut| r.violation.is_some(), |i| store_case(args, i, fpc, exh));
    let mut counts: BTreeMap<String, u64> = BTreeMap::new();
    let mut samples = vec![];
    let mut distinct: std::collections::BTreeSet<u64> = std::collections::BTreeSet::new();
    let mut reads = 0;
    let mut exhaustive_texts = 0;
    let mut violation = None;
    for (_, r) in &results {
        for (k, v) in &r.counts {
            *counts.entry(k.clone()).or_insert(0) += v;
        }
        if let Some(s) = &r.sample {
            if samples.len() < 3 {
                samples.push(s.clone());
            }
        }
        distinct.extend(r.distinct.iter());
        reads += r.reads;
        exhaustive_texts += r.exhaustive_texts;
        if violation.is_none() {
            violation = r.violation.clone();
        }
    }
    let mut code = 0;
    let mut nviol = 0;
    if let Some(v) = violation {
        nviol = 1;
        let v = minimise_store(v);
        let name = format!("C12-{}-{}", args.seed, v.case_index);
        match write_replay(&args.replay_dir, &name, &serde_json::to_value(&v).unwrap()) {
            Ok(path) => {
                println!("VIOLATION property=C12 replay={}", path);
                println!("  class={} stage={} fault={} detail={}", v.class, v.stage, v.fault.as_ref().map(|f| f.kind()).unwrap_or("none"), v.detail.chars().take(300).collect::<String>());
            }
            Err(e) => {
                eprintln!("cannot write replay: {}", e);
                return 2;
            }
        }
        code = 1;
    }
    let wall = t0.elapsed().as_secs_f64();
    if samples.is_empty() {
        samples.push(serde_json::json!({"note": "no case completed"}));
    }
    let ev = EvidenceOut {
        args,
        level: "fault_enumeration",
        rule: "writers = seeded contexts at a seeded pipeline stage (plain with names and every annotation kind, instantiated, inlined, compiled unoptimised, compiled optimised, unfinalized); fault-free: serialise twice, round trip deep-equal + well-formed + evaluates identically under one seed; faults on the stored bytes: EVERY truncation offset and EVERY single-bit flip for texts up to the enumeration limit, plus seeded multi-bit flips, zeroed/duplicated/dropped blocks and structured corruption of the inner payload (version, payload type, id tables, dangling dependencies, tree mutation). evaluations = faulted reads; distinct_nontrivial = distinct valid serialisations (by text hash) that were round-tripped and then corrupted".into(),
        evaluations: reads.max(1),
        distinct_nontrivial: distinct.len() as u64,
        samples,
        extra: serde_json::json!({
            "contexts_written": results.len(),
            "faulted_reads": reads,
            "texts_enumerated_exhaustively(all truncations + all single-bit flips)": exhaustive_texts,
            "counters": counts,
            "reads_per_hour": if wall > 0.0 { (reads as f64 / wall * 3600.0) as u64 } else { 0 },
            "components": {"real": ["Context Serialize/Deserialize", "recover_original_context (graph API, type inference)", "contexts_deep_equal", "compiler pipeline producing the written contexts", "SimpleEvaluator"], "stub": ["byte store + fault injector", "well-formedness checker (public getters)"]}
        }),
        assumptions: vec![
            "a reader that gets non-UTF-8 bytes sees them lossily decoded (serde_json::from_str takes text)".into(),
            "well-formedness is judged through public getters and the serialised finalization flags".into(),
        ],
        wall_s: wall,
        violations: nviol,
        exhaustive: false,
    };
    if let Err(e) = write_evidence(ev) {
        eprintln!("cannot write evidence: {}", e);
        return 2;
    }
    println!("[C12] tier={} seed={} contexts={} faulted_reads={} exhaustive_texts={} wall={:.1}s", args.tier.name(), args.seed, results.len(), reads, exhaustive_texts, wall);
    code
}

pub fn replay_cmd(path: &str) -> i32 {
    let s = match std::fs::read_to_string(path) {
        Ok(s) => s,
        Err(e) => {
            eprintln!("cannot read {}: {}", path, e);
            return 2;
        }
    };
    let rp: StoreReplay = match serde_json::from_str(&s) {
        Ok(r) => r,
        Err(e) => {
            eprintln!("cannot parse replay: {}", e);
            return 2;
        }
    };
    match replay_store(&rp) {
        Some((class, detail)) => {
            println!("VIOLATION property=C12 replay={}", path);
            println!("  class={} detail={}", class, detail.chars().take(300).collect::<String>());
            1
        }
        None => {
            println!("replay {}: no violation reproduced (recorded: {})", path, rp.class);
            0
        }
    }
}

//! Serialisable program DSL. A program is a list of graphs (last = main); a graph is a list of
//! steps, each step being a real `Operation` plus indices of earlier steps / earlier graphs.
//! Programs are built through the real `Graph::add_node` API (type inference runs there).

use ciphercore_base::data_types::Type;
use ciphercore_base::graphs::{create_context, Context, Graph, GraphAnnotation, Node, Operation};
use serde::{Deserialize, Serialize};
use std::collections::HashMap;

#[derive(Serialize, Deserialize, Clone, Debug)]
pub struct Step {
    pub op: Operation,
    pub deps: Vec<usize>,
    #[serde(default)]
    pub gdeps: Vec<usize>,
}

#[derive(Serialize, Deserialize, Clone, Debug, Default)]
pub struct GraphD {
    pub steps: Vec<Step>,
    pub output: usize,
    #[serde(default)]
    pub annotations: Vec<GraphAnnotation>,
    /// optional names: (step index, name); graph name
    #[serde(default)]
    pub node_names: Vec<(usize, String)>,
    #[serde(default)]
    pub graph_name: Option<String>,
    #[serde(default)]
    pub node_annotations: Vec<(usize, ciphercore_base::graphs::NodeAnnotation)>,
}

#[derive(Serialize, Deserialize, Clone, Debug, Default)]
pub struct Prog {
    pub graphs: Vec<GraphD>,
}

/// std's `RandomState` gives every HashMap its own iteration order; the MPC compiler iterates the
/// join-header map, so an uncontrolled map would make the compiled graph differ between two
/// processes. Build the map again until its iteration order is the sorted one.
pub fn canon_headers(pairs: &[(String, String)]) -> HashMap<String, String> {
    let mut sorted: Vec<(String, String)> = pairs.to_vec();
    sorted.sort();
    for _ in 0..100_000 {
        let mut m = HashMap::new();
        for (a, b) in &sorted {
            m.insert(a.clone(), b.clone());
        }
        let it: Vec<(String, String)> = m.iter().map(|(a, b)| (a.clone(), b.clone())).collect();
        if it == sorted {
            return m;
        }
    }
    panic!("canon_headers: could not canonicalise");
}

pub fn canon_op(op: &Operation) -> Operation {
    match op {
        Operation::Join(t, h) => {
            let pairs: Vec<(String, String)> = h.iter().map(|(a, b)| (a.clone(), b.clone())).collect();
            Operation::Join(*t, canon_headers(&pairs))
        }
        Operation::JoinWithColumnMasks(t, h) => {
            let pairs: Vec<(String, String)> = h.iter().map(|(a, b)| (a.clone(), b.clone())).collect();
            Operation::JoinWithColumnMasks(*t, canon_headers(&pairs))
        }
        o => o.clone(),
    }
}

pub fn es(e: ciphercore_base::errors::Error) -> String {
    let s = format!("{}", e);
    s.lines().next().unwrap_or("").to_string()
}

pub struct Built {
    pub context: Context,
    pub graphs: Vec<Graph>,
    pub nodes: Vec<Vec<Node>>,
}

impl Prog {
    pub fn main(&self) -> &GraphD {
        self.graphs.last().expect("empty program")
    }
    pub fn main_mut(&mut self) -> &mut GraphD {
        self.graphs.last_mut().expect("empty program")
    }
    pub fn input_types(&self) -> Vec<Type> {
        self.main()
            .steps
            .iter()
            .filter_map(|s| if let Operation::Input(t) = &s.op { Some(t.clone()) } else { None })
            .collect()
    }
    pub fn num_steps(&self) -> usize {
        self.graphs.iter().map(|g| g.steps.len()).sum()
    }

    /// Build a finalized context. Errors are the API's own (a program the API rejects).
    pub fn build(&self) -> std::result::Result<Built, String> {
        self.build_inner().map_err(|e| e)
    }

    fn build_inner(&self) -> std::result::Result<Built, String> {
        let context = create_context().map_err(es)?;
        let mut graphs = vec![];
        let mut nodes = vec![];
        for gd in &self.graphs {
            let g = context.create_graph().map_err(es)?;
            let mut ns: Vec<Node> = vec![];
            for st in &gd.steps {
                let deps: Vec<Node> = st
                    .deps
                    .iter()
                    .map(|i| ns.get(*i).cloned().ok_or_else(|| "bad dep index".to_string()))
                    .collect::<std::result::Result<Vec<Node>, String>>()?;
                let gdeps: Vec<Graph> = st
                    .gdeps
                    .iter()
                    .map(|i| graphs.get(*i).cloned().ok_or_else(|| "bad graph dep index".to_string()))
                    .collect::<std::result::Result<Vec<Graph>, String>>()?;
                let n = g.add_node(deps, gdeps, canon_op(&st.op)).map_err(es)?;
                ns.push(n);
            }
            for a in &gd.annotations {
                g.add_annotation(a.clone()).map_err(es)?;
            }
            for (i, name) in &gd.node_names {
                let n = ns.get(*i).cloned().ok_or_else(|| "bad name index".to_string())?;
                n.set_name(name).map_err(es)?;
            }
            if let Some(name) = &gd.graph_name {
                g.set_name(name).map_err(es)?;
            }
            for (i, a) in &gd.node_annotations {
                let n = ns.get(*i).cloned().ok_or_else(|| "bad annotation index".to_string())?;
                n.add_annotation(a.clone()).map_err(es)?;
            }
            let out = ns.get(gd.output).cloned().ok_or_else(|| "bad output index".to_string())?;
            g.set_output_node(out).map_err(es)?;
            g.finalize().map_err(es)?;
            graphs.push(g);
            nodes.push(ns);
        }
        context.set_main_graph(graphs.last().unwrap().clone()).map_err(es)?;
        context.finalize().map_err(es)?;
        Ok(Built { context, graphs, nodes })
    }

    pub fn summary(&self) -> String {
        let mut parts = vec![];
        for (gi, g) in self.graphs.iter().enumerate() {
            let ops: Vec<String> = g
                .steps
                .iter()
                .map(|s| {
                    let d: Vec<String> = s.deps.iter().map(|x| x.to_string()).collect();
                    format!("{}({})", op_name(&s.op), d.join(","))
                })
                .collect();
            parts.push(format!("g{}[{}]->{}", gi, ops.join(" "), g.output));
        }
        parts.join(" ; ")
    }
}

pub fn op_name(op: &Operation) -> String {
    match op {
        Operation::Input(t) => format!("Input<{}>", type_str(t)),
        Operation::Constant(t, _) => format!("Const<{}>", type_str(t)),
        Operation::Custom(c) => format!("Custom:{}", c.get_name()),
        o => {
            let s = format!("{:?}", o);
            if s.len() > 60 {
                format!("{}", o)
            } else {
                s
            }
        }
    }
}

pub fn type_str(t: &Type) -> String {
    match t {
        Type::Scalar(st) => format!("{}", st),
        Type::Array(s, st) => format!("{}{:?}", st, s),
        Type::Tuple(ts) => {
            let v: Vec<String> = ts.iter().map(|x| type_str(x)).collect();
            format!("({})", v.join(","))
        }
        Type::Vector(n, et) => format!("<{};{}>", type_str(et), n),
        Type::NamedTuple(nts) => {
            let v: Vec<String> = nts.iter().map(|(n, x)| format!("{}:{}", n, type_str(x))).collect();
            format!("{{{}}}", v.join(","))
        }
    }
}

//! Type-directed, swarm-configured program generator. Every candidate step is offered to the real
//! `Graph::add_node`; a step the API rejects is dropped at generation time.

use crate::dsl::{GraphD, Prog, Step};
use crate::exec::{Case, Inline, Owner};
use crate::rng::Rng;
use crate::vals::{biased_value, enc, num_elems, st_bits, st_mask};
use ciphercore_base::custom_ops::{CustomOperation, Not, Or};
use ciphercore_base::ops::long_division::LongDivision;
use ciphercore_base::data_types::{
    array_type, named_tuple_type, scalar_type, tuple_type, vector_type, ScalarType, Type, BIT, INT128, INT16, INT32, INT64, INT8, UINT128, UINT16, UINT32, UINT64, UINT8,
};
use ciphercore_base::data_values::Value;
use ciphercore_base::graphs::{create_context, Context, Graph, GraphAnnotation, Node, Operation, SliceElement};
use ciphercore_base::ops::adder::BinaryAdd;
use ciphercore_base::ops::clip::Clip2K;
use ciphercore_base::ops::comparisons::{Equal, GreaterThan, GreaterThanEqualTo, LessThan, LessThanEqualTo, NotEqual};
use ciphercore_base::ops::min_max::{Max, Min};
use ciphercore_base::ops::multiplexer::Mux;
use serde::{Deserialize, Serialize};

pub const ALL_ST: [ScalarType; 11] = [BIT, UINT8, INT8, UINT16, INT16, UINT32, INT32, UINT64, INT64, UINT128, INT128];

#[derive(Clone, Debug, Serialize, Deserialize)]
pub struct GenCfg {
    pub max_inputs: usize,
    pub max_steps: usize,
    pub max_elems: u64,
    /// weights per family, in the order of FAMILIES
    pub fam: Vec<u64>,
    /// restrict scalar types (indices into ALL_ST); empty = weighted default
    pub sts: Vec<usize>,
    pub allow_helpers: bool,
    /// some program inputs are tuples / vectors / named tuples of arrays (their leaves are exposed by getters)
    pub composite_inputs: bool,
}

pub const FAMILIES: [&str; 10] = ["arith", "mixed", "dot", "reduce", "shape", "conv", "tuple", "custom", "const", "call"];

impl GenCfg {
    /// Swarm: a random subset of families is enabled, with random weights and size caps.
    pub fn swarm(rng: &mut Rng) -> GenCfg {
        let mut fam = vec![0u64; FAMILIES.len()];
        for f in fam.iter_mut() {
            if rng.chance(3, 5) {
                *f = 1 + rng.below(4);
            }
        }
        fam[0] = fam[0].max(2); // arithmetic is always available so that private data gets used
        // heavy protocols kept rare
        fam[5] = fam[5].min(1);
        fam[7] = fam[7].min(1);
        if rng.chance(1, 2) {
            fam[7] = 0;
        }
        let sts = if rng.chance(1, 3) {
            let k = 1 + rng.usize_below(3);
            (0..k).map(|_| rng.usize_below(ALL_ST.len())).collect()
        } else {
            vec![]
        };
        GenCfg {
            max_inputs: 1 + rng.usize_below(4),
            max_steps: 2 + rng.usize_below(11),
            max_elems: *rng.pick(&[1u64, 4, 8, 16, 32]),
            fam,
            sts,
            allow_helpers: rng.chance(1, 3),
            composite_inputs: false,
        }
    }
}

pub struct Pool {
    pub g: Graph,
    pub nodes: Vec<Node>,
    pub types: Vec<Type>,
    pub steps: Vec<Step>,
}

impl Pool {
    pub fn new(g: Graph) -> Pool {
        Pool { g, nodes: vec![], types: vec![], steps: vec![] }
    }
    /// Offer a step to the API. Returns the new index if accepted.
    pub fn try_add(&mut self, op: Operation, deps: Vec<usize>, gdeps: Vec<usize>, graphs: &[Graph]) -> Option<usize> {
        let dn: Vec<Node> = deps.iter().map(|i| self.nodes[*i].clone()).collect();
        let gn: Vec<Graph> = gdeps.iter().map(|i| graphs[*i].clone()).collect();
        let op = crate::dsl::canon_op(&op);
        match self.g.add_node(dn, gn, op.clone()) {
            Ok(n) => {
                let t = n.get_type().ok()?;
                self.nodes.push(n);
                self.types.push(t);
                self.steps.push(Step { op, deps, gdeps });
                Some(self.nodes.len() - 1)
            }
            Err(_) => None,
        }
    }
    pub fn arrays(&self) -> Vec<usize> {
        (0..self.types.len()).filter(|i| matches!(self.types[*i], Type::Array(_, _) | Type::Scalar(_))).collect()
    }
    pub fn arrays_where(&self, f: impl Fn(&Type) -> bool) -> Vec<usize> {
        self.arrays().into_iter().filter(|i| f(&self.types[*i])).collect()
    }
}

fn pick_st(cfg: &GenCfg, rng: &mut Rng) -> ScalarType {
    if !cfg.sts.is_empty() {
        return ALL_ST[*rng.pick(&cfg.sts)];
    }
    // weighted towards narrow types so protocols stay small
    let w = [4u64, 5, 4, 3, 3, 2, 2, 3, 2, 1, 1];
    ALL_ST[rng.weighted(&w)]
}

pub fn pick_shape(max_elems: u64, rng: &mut Rng) -> Vec<u64> {
    let rank = rng.weighted(&[2, 4, 3, 1]);
    let mut shape = vec![];
    let mut prod = 1u64;
    for _ in 0..rank {
        let cap = (max_elems / prod).max(1).min(6);
        let d = 1 + rng.below(cap);
        shape.push(d);
        prod *= d;
    }
    shape
}

pub fn mk_type(shape: &[u64], st: ScalarType) -> Type {
    if shape.is_empty() {
        scalar_type(st)
    } else {
        array_type(shape.to_vec(), st)
    }
}

fn const_of(t: &Type, rng: &mut Rng) -> Operation {
    match rng.below(4) {
        0 => Operation::Zeros(t.clone()),
        1 => Operation::Ones(t.clone()),
        _ if !matches!(t, Type::Array(_, _) | Type::Scalar(_)) => Operation::Constant(t.clone(), crate::vals::random_value(t, rng)),
        _ => {
            let st = t.get_scalar_type();
            let n = num_elems(t);
            let vals: Vec<u128> = (0..n).map(|_| if rng.chance(1, 2) { rng.below(5) as u128 } else { rng.next_u128() } & st_mask(st)).collect();
            Operation::Constant(t.clone(), enc(&vals, st))
        }
    }
}

fn shape_of(t: &Type) -> Vec<u64> {
    match t {
        Type::Scalar(_) => vec![],
        Type::Array(s, _) => s.clone(),
        _ => vec![],
    }
}

/// One generation attempt for family `f`. Returns true if a step was added.
fn gen_step(f: usize, pool: &mut Pool, cfg: &GenCfg, rng: &mut Rng, graphs: &[Graph], helper_sigs: &[HelperSig]) -> bool {
    let arrays = pool.arrays();
    if arrays.is_empty() {
        return false;
    }
    match FAMILIES[f] {
        "arith" => {
            let a = *rng.pick(&arrays);
            let ta = pool.types[a].clone();
            let st = ta.get_scalar_type();
            let same: Vec<usize> = pool.arrays_where(|t| t.get_scalar_type() == st);
            let b = if rng.chance(4, 5) || same.is_empty() {
                *rng.pick(&same)
            } else {
                match pool.try_add(const_of(&ta, rng), vec![], vec![], graphs) {
                    Some(i) => i,
                    None => return false,
                }
            };
            let op = match rng.below(5) {
                0 | 1 => Operation::Add,
                2 => Operation::Subtract,
                _ => Operation::Multiply,
            };
            pool.try_add(op, vec![a, b], vec![], graphs).is_some()
        }
        "mixed" => {
            let ints = pool.arrays_where(|t| t.get_scalar_type() != BIT);
            if ints.is_empty() {
                return false;
            }
            let a = *rng.pick(&ints);
            let sh = shape_of(&pool.types[a]);
            let bits = pool.arrays_where(|t| t.get_scalar_type() == BIT);
            let b = if !bits.is_empty() && rng.chance(3, 4) {
                *rng.pick(&bits)
            } else {
                let t = mk_type(&sh, BIT);
                match pool.try_add(const_of(&t, rng), vec![], vec![], graphs) {
                    Some(i) => i,
                    None => return false,
                }
            };
            pool.try_add(Operation::MixedMultiply, vec![a, b], vec![], graphs).is_some()
        }
        "dot" => {
            let cands = pool.arrays_where(|t| t.is_array());
            if cands.is_empty() {
                return false;
            }
            let a = *rng.pick(&cands);
            let ta = pool.types[a].clone();
            let st = ta.get_scalar_type();
            let sa = shape_of(&ta);
            let kind = rng.below(3);
            // find or make a partner
            let inner = *sa.last().unwrap();
            let partners = pool.arrays_where(|t| t.get_scalar_type() == st && t.is_array());
            let b = if rng.chance(1, 2) && !partners.is_empty() {
                *rng.pick(&partners)
            } else {
                let m = 1 + rng.below(3);
                let shb = match kind {
                    2 => {
                        // gemm: rank >= 2 both
                        if sa.len() < 2 {
                            return false;
                        }
                        let mut s = sa[..sa.len() - 2].to_vec();
                        s.push(m);
                        s.push(inner);
                        s
                    }
                    _ => {
                        if rng.chance(1, 2) {
                            vec![inner]
                        } else {
                            vec![inner, m]
                        }
                    }
                };
                match pool.try_add(const_of(&mk_type(&shb, st), rng), vec![], vec![], graphs) {
                    Some(i) => i,
                    None => return false,
                }
            };
            let op = match kind {
                0 => Operation::Dot,
                1 => Operation::Matmul,
                _ => Operation::Gemm(rng.chance(1, 4), rng.chance(3, 4)),
            };
            let (x, y) = if rng.chance(1, 5) { (b, a) } else { (a, b) };
            pool.try_add(op.clone(), vec![x, y], vec![], graphs).is_some() || pool.try_add(op, vec![y, x], vec![], graphs).is_some()
        }
        "reduce" => {
            let cands = pool.arrays_where(|t| t.is_array());
            if cands.is_empty() {
                return false;
            }
            let a = *rng.pick(&cands);
            let sa = shape_of(&pool.types[a]);
            if rng.chance(1, 2) {
                let mut axes: Vec<u64> = (0..sa.len() as u64).filter(|_| rng.chance(1, 2)).collect();
                if axes.is_empty() {
                    axes.push(rng.below(sa.len() as u64));
                }
                pool.try_add(Operation::Sum(axes), vec![a], vec![], graphs).is_some()
            } else {
                pool.try_add(Operation::CumSum(rng.below(sa.len() as u64)), vec![a], vec![], graphs).is_some()
            }
        }
        "shape" => {
            let cands = pool.arrays_where(|t| t.is_array());
            if cands.is_empty() {
                return false;
            }
            let a = *rng.pick(&cands);
            let ta = pool.types[a].clone();
            let sa = shape_of(&ta);
            let st = ta.get_scalar_type();
            match rng.below(6) {
                0 => {
                    let mut perm: Vec<u64> = (0..sa.len() as u64).collect();
                    rng.shuffle(&mut perm);
                    pool.try_add(Operation::PermuteAxes(perm), vec![a], vec![], graphs).is_some()
                }
                1 => {
                    let k = 1 + rng.usize_below(sa.len());
                    let idx: Vec<u64> = (0..k).map(|i| rng.below(sa[i])).collect();
                    pool.try_add(Operation::Get(idx), vec![a], vec![], graphs).is_some()
                }
                2 => {
                    let mut sl = vec![];
                    for d in sa.iter() {
                        let d = *d as i64;
                        sl.push(match rng.below(5) {
                            0 => SliceElement::SingleIndex(rng.below(d as u64) as i64 - if rng.chance(1, 3) { d } else { 0 }),
                            1 => SliceElement::SubArray(None, None, Some(if rng.chance(1, 2) { -1 } else { 2 })),
                            2 => SliceElement::SubArray(Some(rng.below(d as u64) as i64), None, None),
                            3 => SliceElement::SubArray(None, Some(1 + rng.below(d as u64) as i64), Some(1)),
                            _ => SliceElement::SubArray(None, None, None),
                        });
                        if rng.chance(1, 4) {
                            break;
                        }
                    }
                    if rng.chance(1, 6) {
                        sl.insert(0, SliceElement::Ellipsis);
                    }
                    pool.try_add(Operation::GetSlice(sl), vec![a], vec![], graphs).is_some()
                }
                3 => {
                    let n: u64 = sa.iter().product();
                    let mut divs: Vec<u64> = (1..=n).filter(|d| n % d == 0).collect();
                    rng.shuffle(&mut divs);
                    let d = divs[0];
                    let ns = if d == 1 || d == n || rng.chance(1, 3) { vec![n] } else { vec![d, n / d] };
                    pool.try_add(Operation::Reshape(array_type(ns, st)), vec![a], vec![], graphs).is_some()
                }
                4 => {
                    let same: Vec<usize> = pool.arrays_where(|t| *t == ta);
                    let k = 1 + rng.usize_below(5);
                    let deps: Vec<usize> = (0..k).map(|_| *rng.pick(&same)).collect();
                    pool.try_add(Operation::Stack(vec![k as u64]), deps, vec![], graphs).is_some()
                }
                _ => {
                    let same: Vec<usize> = pool.arrays_where(|t| t.get_scalar_type() == st && shape_of(t).len() == sa.len());
                    let k = 2 + rng.usize_below(4);
                    let deps: Vec<usize> = (0..k).map(|i| if i == 0 { a } else { *rng.pick(&same) }).collect();
                    let ax = rng.below(sa.len() as u64);
                    pool.try_add(Operation::Concatenate(ax), deps.clone(), vec![], graphs).is_some()
                        || pool.try_add(Operation::Concatenate(ax), vec![a, a], vec![], graphs).is_some()
                }
            }
        }
        "conv" => {
            // A2B then (optionally) B2A back
            let ints = pool.arrays_where(|t| t.get_scalar_type() != BIT && st_bits(t.get_scalar_type()) <= 64);
            let bits = pool.arrays_where(|t| {
                t.get_scalar_type() == BIT && t.is_array() && [8u64, 16, 32, 64].contains(shape_of(t).last().unwrap())
            });
            if !bits.is_empty() && rng.chance(1, 2) {
                let a = *rng.pick(&bits);
                let w = *shape_of(&pool.types[a]).last().unwrap();
                let st = match (w, rng.chance(1, 2)) {
                    (8, true) => UINT8,
                    (8, false) => INT8,
                    (16, true) => UINT16,
                    (16, false) => INT16,
                    (32, true) => UINT32,
                    (32, false) => INT32,
                    (64, true) => UINT64,
                    _ => INT64,
                };
                pool.try_add(Operation::B2A(st), vec![a], vec![], graphs).is_some()
            } else if !ints.is_empty() {
                let a = *rng.pick(&ints);
                pool.try_add(Operation::A2B, vec![a], vec![], graphs).is_some()
            } else {
                false
            }
        }
        "tuple" => {
            let all: Vec<usize> = (0..pool.types.len()).collect();
            match rng.below(9) {
                0 => {
                    let k = 1 + rng.usize_below(5);
                    let deps: Vec<usize> = (0..k).map(|_| *rng.pick(&all)).collect();
                    pool.try_add(Operation::CreateTuple, deps, vec![], graphs).is_some()
                }
                1 => {
                    let k = 1 + rng.usize_below(5);
                    let deps: Vec<usize> = (0..k).map(|_| *rng.pick(&all)).collect();
                    let names: Vec<String> = (0..k).map(|i| format!("f{}", i)).collect();
                    pool.try_add(Operation::CreateNamedTuple(names), deps, vec![], graphs).is_some()
                }
                2 => {
                    let a = *rng.pick(&all);
                    let t = pool.types[a].clone();
                    let same: Vec<usize> = all.iter().cloned().filter(|i| pool.types[*i] == t).collect();
                    let k = 1 + rng.usize_below(5);
                    let deps: Vec<usize> = (0..k).map(|_| *rng.pick(&same)).collect();
                    pool.try_add(Operation::CreateVector(t), deps, vec![], graphs).is_some()
                }
                3 => {
                    let tup: Vec<usize> = all.iter().cloned().filter(|i| matches!(&pool.types[*i], Type::Tuple(v) if !v.is_empty())).collect();
                    if tup.is_empty() {
                        return false;
                    }
                    let a = *rng.pick(&tup);
                    let k = if let Type::Tuple(v) = &pool.types[a] { v.len() } else { 1 };
                    pool.try_add(Operation::TupleGet(rng.below(k as u64)), vec![a], vec![], graphs).is_some()
                }
                4 => {
                    let tup: Vec<usize> = all.iter().cloned().filter(|i| matches!(&pool.types[*i], Type::NamedTuple(_))).collect();
                    if tup.is_empty() {
                        return false;
                    }
                    let a = *rng.pick(&tup);
                    let names = pool.types[a].get_names().unwrap_or_default();
                    if names.is_empty() {
                        return false;
                    }
                    pool.try_add(Operation::NamedTupleGet(rng.pick(&names).clone()), vec![a], vec![], graphs).is_some()
                }
                5 => {
                    let vecs: Vec<usize> = all.iter().cloned().filter(|i| matches!(&pool.types[*i], Type::Vector(n, _) if *n > 0)).collect();
                    if vecs.is_empty() {
                        return false;
                    }
                    let a = *rng.pick(&vecs);
                    let n = if let Type::Vector(n, _) = &pool.types[a] { *n } else { 1 };
                    let idx = rng.below(n);
                    let c = match pool.try_add(
                        Operation::Constant(scalar_type(UINT64), enc(&[idx as u128], UINT64)),
                        vec![],
                        vec![],
                        graphs,
                    ) {
                        Some(c) => c,
                        None => return false,
                    };
                    pool.try_add(Operation::VectorGet, vec![a, c], vec![], graphs).is_some()
                }
                6 => {
                    let cands = pool.arrays_where(|t| t.is_array());
                    if cands.is_empty() {
                        return false;
                    }
                    let a = *rng.pick(&cands);
                    pool.try_add(Operation::ArrayToVector, vec![a], vec![], graphs).is_some()
                }
                7 => {
                    let vecs: Vec<usize> = all
                        .iter()
                        .cloned()
                        .filter(|i| matches!(&pool.types[*i], Type::Vector(n, et) if *n > 0 && matches!(**et, Type::Array(_, _) | Type::Scalar(_))))
                        .collect();
                    if vecs.is_empty() {
                        return false;
                    }
                    let a = *rng.pick(&vecs);
                    if rng.chance(1, 2) {
                        pool.try_add(Operation::VectorToArray, vec![a], vec![], graphs).is_some()
                    } else {
                        let n = if let Type::Vector(n, _) = &pool.types[a] { *n } else { 0 };
                        let same: Vec<usize> = all.iter().cloned().filter(|i| matches!(&pool.types[*i], Type::Vector(m, _) if *m == n)).collect();
                        let k = 2 + rng.usize_below(2);
                        let deps: Vec<usize> = (0..k).map(|_| *rng.pick(&same)).collect();
                        pool.try_add(Operation::Zip, deps, vec![], graphs).is_some()
                    }
                }
                _ => {
                    let a = *rng.pick(&all);
                    pool.try_add(Operation::Repeat(1 + rng.below(3)), vec![a], vec![], graphs).is_some()
                }
            }
        }
        "custom" => {
            // bit-level custom operations on binary strings (last dimension = bits)
            let mut bits = pool.arrays_where(|t| t.get_scalar_type() == BIT && t.is_array());
            if bits.is_empty() || rng.chance(1, 4) {
                // bring an integer value into its binary representation first
                let ints = pool.arrays_where(|t| t.get_scalar_type() != BIT);
                if !ints.is_empty() {
                    let x = *rng.pick(&ints);
                    if let Some(nb) = pool.try_add(Operation::A2B, vec![x], vec![], graphs) {
                        bits = vec![nb];
                    }
                }
            }
            if bits.is_empty() {
                return false;
            }
            let a = *rng.pick(&bits);
            let ta = pool.types[a].clone();
            let same: Vec<usize> = pool.arrays_where(|t| *t == ta);
            let b = *rng.pick(&same);
            let sg = rng.chance(1, 2);
            let op = match rng.below(14) {
                11 => {
                    return pool.try_add(Operation::Custom(CustomOperation::new(Not {})), vec![a], vec![], graphs).is_some();
                }
                12 => {
                    // or(x, y) on any two broadcastable bit values
                    let anyb = pool.arrays_where(|t| t.get_scalar_type() == BIT);
                    let b2 = *rng.pick(&anyb);
                    if pool.try_add(Operation::Custom(CustomOperation::new(Or {})), vec![a, b2], vec![], graphs).is_some() {
                        return true;
                    }
                    CustomOperation::new(Or {})
                }
                13 => {
                    let w = *shape_of(&ta).last().unwrap();
                    if w > 16 || !w.is_power_of_two() {
                        return false;
                    }
                    CustomOperation::new(LongDivision { signed: sg })
                }
                0 => CustomOperation::new(GreaterThan { signed_comparison: sg }),
                1 => CustomOperation::new(LessThan { signed_comparison: sg }),
                2 => CustomOperation::new(GreaterThanEqualTo { signed_comparison: sg }),
                3 => CustomOperation::new(LessThanEqualTo { signed_comparison: sg }),
                4 => CustomOperation::new(Equal {}),
                5 => CustomOperation::new(NotEqual {}),
                6 => CustomOperation::new(Min { signed_comparison: sg }),
                7 => CustomOperation::new(Max { signed_comparison: sg }),
                8 => {
                    // mux(selector, x, y)
                    let sel = pool.arrays_where(|t| t.get_scalar_type() == BIT);
                    let s = *rng.pick(&sel);
                    return pool.try_add(Operation::Custom(CustomOperation::new(Mux {})), vec![s, a, b], vec![], graphs).is_some();
                }
                9 => {
                    let w = *shape_of(&ta).last().unwrap();
                    return pool
                        .try_add(Operation::Custom(CustomOperation::new(Clip2K { k: rng.below(w.max(2) - 1) })), vec![a], vec![], graphs)
                        .is_some();
                }
                _ => CustomOperation::new(BinaryAdd { overflow_bit: rng.chance(1, 3) }),
            };
            pool.try_add(Operation::Custom(op), vec![a, b], vec![], graphs).is_some()
        }
        "const" => {
            let st = pick_st(cfg, rng);
            let sh = pick_shape(cfg.max_elems, rng);
            pool.try_add(const_of(&mk_type(&sh, st), rng), vec![], vec![], graphs).is_some()
        }
        "call" => {
            if helper_sigs.is_empty() {
                return false;
            }
            let hi = rng.usize_below(helper_sigs.len());
            let h = &helper_sigs[hi];
            let all: Vec<usize> = (0..pool.types.len()).collect();
            if h.iterate {
                // state type = inputs[0], element type = inputs[1]; build a vector of elements
                let st_c: Vec<usize> = all.iter().cloned().filter(|i| pool.types[*i] == h.inputs[0]).collect();
                let el_c: Vec<usize> = all.iter().cloned().filter(|i| pool.types[*i] == h.inputs[1]).collect();
                if st_c.is_empty() || el_c.is_empty() {
                    return false;
                }
                let k = rng.usize_below(5);
                let elems: Vec<usize> = (0..k).map(|_| *rng.pick(&el_c)).collect();
                let v = match pool.try_add(Operation::CreateVector(h.inputs[1].clone()), elems, vec![], graphs) {
                    Some(v) => v,
                    None => return false,
                };
                let s = *rng.pick(&st_c);
                pool.try_add(Operation::Iterate, vec![s, v], vec![hi], graphs).is_some()
            } else {
                let mut deps = vec![];
                for t in &h.inputs {
                    let c: Vec<usize> = all.iter().cloned().filter(|i| pool.types[*i] == *t).collect();
                    if c.is_empty() {
                        match pool.try_add(const_of(t, rng), vec![], vec![], graphs) {
                            Some(i) => deps.push(i),
                            None => return false,
                        }
                    } else {
                        deps.push(*rng.pick(&c));
                    }
                }
                pool.try_add(Operation::Call, deps, vec![hi], graphs).is_some()
            }
        }
        _ => false,
    }
}

pub struct HelperSig {
    pub inputs: Vec<Type>,
    pub iterate: bool,
}

/// Helper graph: either a plain callee (k inputs -> value) or an iterate body (state, elem) -> (state, out).
fn gen_helper(ctx: &Context, cfg: &GenCfg, rng: &mut Rng, graphs: &[Graph], sigs: &[HelperSig], in_types: &[Type]) -> Option<(GraphD, Graph, HelperSig)> {
    let g = ctx.create_graph().ok()?;
    let mut pool = Pool::new(g.clone());
    let iterate = rng.chance(1, 2);
    let base = rng.pick(in_types).clone();
    if iterate {
        pool.try_add(Operation::Input(base.clone()), vec![], vec![], graphs)?;
        let et = if rng.chance(2, 3) { base.clone() } else { rng.pick(in_types).clone() };
        pool.try_add(Operation::Input(et), vec![], vec![], graphs)?;
    } else {
        let k = 1 + rng.usize_below(2);
        for i in 0..k {
            let t = if i == 0 || rng.chance(2, 3) { base.clone() } else { rng.pick(in_types).clone() };
            pool.try_add(Operation::Input(t), vec![], vec![], graphs)?;
        }
    }
    let inputs: Vec<Type> = pool.types.clone();
    let nsteps = 1 + rng.usize_below(3);
    let mut tries = 0;
    let mut added = 0;
    while added < nsteps && tries < 30 {
        tries += 1;
        let f = rng.weighted(&[4, 1, 1, 1, 1, 0, 1, 0, 1, if sigs.is_empty() { 0 } else { 1 }]);
        if gen_step(f, &mut pool, cfg, rng, graphs, sigs) {
            added += 1;
        }
    }
    let output;
    let mut annotations = vec![];
    if iterate {
        // new state must have the state's type
        let cands: Vec<usize> = (2..pool.types.len()).filter(|i| pool.types[*i] == inputs[0]).collect();
        let ns = if cands.is_empty() {
            // state' = state + state keeps the type
            pool.try_add(Operation::Add, vec![0, 0], vec![], graphs).or_else(|| Some(0))?
        } else {
            *rng.pick(&cands)
        };
        let outv = if rng.chance(1, 3) {
            pool.try_add(Operation::CreateTuple, vec![], vec![], graphs)?
        } else {
            rng.usize_below(pool.types.len())
        };
        output = pool.try_add(Operation::CreateTuple, vec![ns, outv], vec![], graphs)?;
        let _ = &mut annotations;
    } else {
        output = pool.types.len() - 1 - rng.usize_below(pool.types.len().min(2));
    }
    g.set_output_node(pool.nodes[output].clone()).ok()?;
    g.finalize().ok()?;
    Some((GraphD { steps: pool.steps, output, annotations, ..Default::default() }, g, HelperSig { inputs, iterate }))
}

pub fn gen_input_types(cfg: &GenCfg, rng: &mut Rng) -> Vec<Type> {
    let n = 1 + rng.usize_below(cfg.max_inputs);
    let mut ts: Vec<Type> = vec![];
    for i in 0..n {
        if i > 0 && rng.chance(1, 2) {
            // correlated with an earlier input: same type, or same scalar type
            let prev = rng.pick(&ts).clone();
            if rng.chance(2, 3) {
                ts.push(prev);
            } else {
                let st = prev.get_scalar_type();
                ts.push(mk_type(&pick_shape(cfg.max_elems, rng), st));
            }
        } else {
            let st = pick_st(cfg, rng);
            ts.push(mk_type(&pick_shape(cfg.max_elems, rng), st));
        }
    }
    ts
}

/// Replaces one or two of the (array-typed) program inputs by a tuple, vector, named tuple or a nesting of
/// these: the compiler shares, forwards and reveals such inputs leaf by leaf.
fn wrap_composite(ts: &mut Vec<Type>, cfg: &GenCfg, rng: &mut Rng) {
    let k = 1 + rng.usize_below(2.min(ts.len()));
    for _ in 0..k {
        let i = rng.usize_below(ts.len());
        if !matches!(ts[i], Type::Array(_, _) | Type::Scalar(_)) {
            continue;
        }
        let base = ts[i].clone();
        let other = if rng.chance(1, 2) { base.clone() } else { mk_type(&pick_shape(cfg.max_elems.min(8), rng), pick_st(cfg, rng)) };
        ts[i] = match rng.below(6) {
            0 => tuple_type(vec![base, other]),
            1 => vector_type(1 + rng.below(3), base),
            2 => named_tuple_type(vec![("a".to_owned(), base), ("b".to_owned(), other)]),
            3 => tuple_type(vec![base.clone(), vector_type(2, other), base]),
            4 => vector_type(2, tuple_type(vec![base, other])),
            _ => named_tuple_type(vec![("k".to_owned(), tuple_type(vec![other, base.clone()])), ("v".to_owned(), base)]),
        };
    }
}

/// Getter steps that bring the leaves of composite inputs into the pool (three times out of four per component).
fn expose_leaves(pool: &mut Pool, rng: &mut Rng, graphs: &[Graph]) {
    let mut i = 0;
    while i < pool.types.len() && pool.types.len() < 40 {
        let t = pool.types[i].clone();
        match &t {
            Type::Tuple(v) => {
                for j in 0..v.len() {
                    if rng.chance(3, 4) {
                        pool.try_add(Operation::TupleGet(j as u64), vec![i], vec![], graphs);
                    }
                }
            }
            Type::NamedTuple(v) => {
                for (name, _) in v.iter() {
                    if rng.chance(3, 4) {
                        pool.try_add(Operation::NamedTupleGet(name.clone()), vec![i], vec![], graphs);
                    }
                }
            }
            Type::Vector(n, _) => {
                for j in 0..*n {
                    if rng.chance(3, 4) {
                        if let Some(c) = pool.try_add(Operation::Constant(scalar_type(UINT64), enc(&[j as u128], UINT64)), vec![], vec![], graphs) {
                            pool.try_add(Operation::VectorGet, vec![i, c], vec![], graphs);
                        }
                    }
                }
                if rng.chance(1, 3) {
                    pool.try_add(Operation::VectorToArray, vec![i], vec![], graphs);
                }
            }
            _ => {}
        }
        i += 1;
    }
}

/// Generate a program. The result always builds (it was built while being generated).
pub fn gen_prog(cfg: &GenCfg, rng: &mut Rng) -> Option<Prog> {
    let ctx = create_context().ok()?;
    let mut in_types = gen_input_types(cfg, rng);
    if cfg.composite_inputs {
        wrap_composite(&mut in_types, cfg, rng);
    }
    let mut graphs: Vec<Graph> = vec![];
    let mut gds: Vec<GraphD> = vec![];
    let mut sigs: Vec<HelperSig> = vec![];
    if cfg.allow_helpers && cfg.fam[9] > 0 {
        let k = 1 + rng.usize_below(2);
        for _ in 0..k {
            if let Some((gd, g, sig)) = gen_helper(&ctx, cfg, rng, &graphs, &sigs, &in_types) {
                gds.push(gd);
                graphs.push(g);
                sigs.push(sig);
            }
        }
    }
    let g = ctx.create_graph().ok()?;
    let mut pool = Pool::new(g.clone());
    for t in &in_types {
        pool.try_add(Operation::Input(t.clone()), vec![], vec![], &graphs)?;
    }
    if cfg.composite_inputs {
        expose_leaves(&mut pool, rng, &graphs);
    }
    let mut fam = cfg.fam.clone();
    if sigs.is_empty() {
        fam[9] = 0;
    }
    let mut tries = 0;
    let mut added = 0;
    while added < cfg.max_steps && tries < cfg.max_steps * 8 {
        tries += 1;
        let f = rng.weighted(&fam);
        if gen_step(f, &mut pool, cfg, rng, &graphs, &sigs) {
            added += 1;
        }
    }
    // output: prefer a late node; sometimes a tuple of several
    let n = pool.types.len();
    let output = if rng.chance(1, 5) && n >= 2 {
        let a = n - 1 - rng.usize_below(n.min(3));
        let b = rng.usize_below(n);
        pool.try_add(Operation::CreateTuple, vec![a, b], vec![], &graphs).unwrap_or(n - 1)
    } else {
        n - 1 - rng.usize_below(n.min(3))
    };
    gds.push(GraphD { steps: pool.steps, output, annotations: vec![], ..Default::default() });
    Some(Prog { graphs: gds })
}

pub fn gen_owners(n: usize, rng: &mut Rng) -> Vec<Owner> {
    (0..n)
        .map(|_| match rng.below(8) {
            0 | 1 => Owner::Party(0),
            2 | 3 => Owner::Party(1),
            4 | 5 => Owner::Party(2),
            6 => Owner::Public,
            _ => Owner::Shared,
        })
        .collect()
}

pub fn gen_outputs(rng: &mut Rng) -> Vec<u8> {
    let mask = rng.below(8) as u8;
    let mut v: Vec<u8> = (0..3u8).filter(|p| mask >> p & 1 == 1).collect();
    rng.shuffle(&mut v);
    v
}

pub fn gen_inline(rng: &mut Rng) -> Inline {
    match rng.below(4) {
        0 | 1 => Inline::Simple,
        2 => Inline::DepthDefault,
        _ => Inline::DepthExtreme,
    }
}

pub fn gen_inputs(types: &[Type], rng: &mut Rng) -> Vec<Value> {
    types.iter().map(|t| biased_value(t, rng)).collect()
}

pub fn gen_case(cfg: &GenCfg, rng: &mut Rng) -> Option<Case> {
    let prog = gen_prog(cfg, rng)?;
    let its = prog.input_types();
    let owners = gen_owners(its.len(), rng);
    let outputs = gen_outputs(rng);
    let inline = gen_inline(rng);
    let inputs = gen_inputs(&its, rng);
    Some(Case { prog, owners, outputs, inline, inputs })
}

#[allow(dead_code)]
fn _unused(_: GraphAnnotation) {}

/// Small programs aimed at one protocol each (the swarm generator reaches them rarely).
pub fn protocol_case(rng: &mut Rng) -> Option<Case> {
    let ints: Vec<ScalarType> = vec![UINT8, INT8, UINT16, INT16, UINT32, INT32, UINT64, INT64];
    let st = *rng.pick(&ints);
    let n = 1 + rng.below(3);
    let t = array_type(vec![n], st);
    let inp = |t: &Type| Step { op: Operation::Input(t.clone()), deps: vec![], gdeps: vec![] };
    let st_of = |op: Operation, deps: Vec<usize>| Step { op, deps, gdeps: vec![] };
    let mut steps: Vec<Step>;
    let kind = match rng.below(18) {
        12 | 13 => 9,
        14 | 15 => 12,
        16 | 17 => 13,
        k => k,
    };
    if kind == 9 {
        // associative, NON-commutative iteration (running product of 2x2 matrices) over >= 16 elements with
        // per-step outputs: depth-optimised inlining uses the prefix-sum data structures
        let st2 = *rng.pick(&[UINT8, INT16, UINT32, INT64]);
        let flavour = rng.below(4);
        let n_it = if rng.chance(1, 5) { 1 + rng.below(15) } else { 16 + rng.below(9) };
        // flavour 0,1: associative matrix product; 2: one-bit batched state; 3: two-bit batched state
        let (mt, body) = match flavour {
            2 => {
                // state' = state * elem + elem on independent bit rows (the batched one-bit-state contract)
                let bt = array_type(vec![1 + rng.below(3)], BIT);
                let with_out = rng.chance(2, 3);
                let mut st_steps = vec![inp(&bt), inp(&bt), st_of(Operation::Multiply, vec![0, 1]), st_of(Operation::Add, vec![2, 1])];
                let outv = if with_out {
                    3
                } else {
                    st_steps.push(st_of(Operation::CreateTuple, vec![]));
                    4
                };
                let k = st_steps.len();
                st_steps.push(st_of(Operation::CreateTuple, vec![3, outv]));
                (bt, GraphD { steps: st_steps, output: k, annotations: vec![GraphAnnotation::OneBitState], ..Default::default() })
            }
            3 => {
                // two-bit state per row: state' = state + elem (bitwise), rows independent
                let bt = array_type(vec![1 + rng.below(2), 2], BIT);
                (bt.clone(), GraphD {
                    steps: vec![inp(&bt), inp(&bt), st_of(Operation::Add, vec![0, 1]), st_of(Operation::Multiply, vec![2, 1]), st_of(Operation::Add, vec![3, 0]), st_of(Operation::CreateTuple, vec![4, 4])],
                    output: 5,
                    annotations: vec![GraphAnnotation::SmallState],
                    ..Default::default()
                })
            }
            _ => {
                let mt = array_type(vec![2, 2], st2);
                (mt.clone(), GraphD {
                    steps: vec![inp(&mt), inp(&mt), st_of(Operation::Matmul, vec![0, 1]), st_of(Operation::CreateTuple, vec![2, 2])],
                    output: 3,
                    annotations: vec![GraphAnnotation::AssociativeOperation],
                    ..Default::default()
                })
            }
        };
        let vt = ciphercore_base::data_types::vector_type(n_it, mt.clone());
        let mut msteps = vec![inp(&mt), inp(&vt), Step { op: Operation::Iterate, deps: vec![0, 1], gdeps: vec![0] }];
        let out = match rng.below(5) {
            0 => {
                msteps.push(st_of(Operation::TupleGet(0), vec![2]));
                3
            }
            1 => {
                msteps.push(st_of(Operation::TupleGet(1), vec![2]));
                msteps.push(st_of(Operation::Constant(scalar_type(UINT64), enc(&[rng.below(n_it) as u128], UINT64)), vec![]));
                msteps.push(st_of(Operation::VectorGet, vec![3, 4]));
                5
            }
            _ => 2,
        };
        let prog = Prog { graphs: vec![body, GraphD { steps: msteps, output: out, ..Default::default() }] };
        prog.build().ok()?;
        let its = prog.input_types();
        let owners = gen_owners(its.len(), rng);
        let outputs = gen_outputs(rng);
        let inline = if rng.chance(2, 3) { Inline::DepthDefault } else { gen_inline(rng) };
        // small entries keep the products informative (non-commuting matrices)
        let small = |t: &Type, rng: &mut Rng| -> Value { crate::vals::map_leaves(t, &mut |lt| enc(&(0..num_elems(lt)).map(|_| rng.below(3) as u128).collect::<Vec<_>>(), lt.get_scalar_type())) };
        let inputs: Vec<Value> = its.iter().map(|t| small(t, rng)).collect();
        return Some(Case { prog, owners, outputs, inline, inputs });
    }
    match kind {
        0 => {
            // A2B -> B2A round trip, then arithmetic with a second input
            steps = vec![inp(&t), inp(&t), st_of(Operation::A2B, vec![0]), st_of(Operation::B2A(st), vec![2]), st_of(if rng.chance(1, 2) { Operation::Add } else { Operation::Multiply }, vec![3, 1])];
        }
        1 => {
            // private bit strings converted to integers
            let w = st_bits(st) as u64;
            let bt = array_type(vec![n, w], BIT);
            steps = vec![inp(&bt), inp(&bt), st_of(Operation::Add, vec![0, 1]), st_of(Operation::B2A(st), vec![2])];
            if rng.chance(1, 2) {
                steps.push(st_of(Operation::B2A(st), vec![0]));
                steps.push(st_of(Operation::Multiply, vec![3, 4]));
            }
        }
        2 => {
            let bt = array_type(vec![n], BIT);
            steps = vec![inp(&t), inp(&bt), st_of(Operation::MixedMultiply, vec![0, 1])];
            if rng.chance(1, 2) {
                steps.push(st_of(Operation::Add, vec![2, 0]));
            }
        }
        3 => {
            let (a, b, c) = (1 + rng.below(2), 1 + rng.below(3), 1 + rng.below(2));
            let (ta, tb) = (rng.chance(1, 2), rng.chance(1, 2));
            let sa = if ta { vec![b, a] } else { vec![a, b] };
            let sb = if tb { vec![c, b] } else { vec![b, c] };
            steps = vec![inp(&array_type(sa, st)), inp(&array_type(sb, st)), st_of(Operation::Gemm(ta, tb), vec![0, 1])];
            if rng.chance(1, 2) {
                steps.push(st_of(Operation::Add, vec![2, 2]));
            }
        }
        4 => {
            let m = 1 + rng.below(3);
            steps = vec![inp(&array_type(vec![n, m], st)), inp(&array_type(vec![m], st)), st_of(if rng.chance(1, 2) { Operation::Matmul } else { Operation::Dot }, vec![0, 1])];
        }
        5 => {
            // comparison on private integers through A2B
            let sg = rng.chance(1, 2);
            steps = vec![
                inp(&t),
                inp(&t),
                st_of(Operation::A2B, vec![0]),
                st_of(Operation::A2B, vec![1]),
                st_of(Operation::Custom(CustomOperation::new(GreaterThan { signed_comparison: sg })), vec![2, 3]),
            ];
            if rng.chance(1, 2) {
                steps.push(st_of(Operation::Custom(CustomOperation::new(Max { signed_comparison: sg })), vec![2, 3]));
                steps.push(st_of(Operation::B2A(st), vec![5]));
            }
        }
        6 => {
            // products whose resharing is postponed: (a*b) + (c*a), then multiplied again
            steps = vec![inp(&t), inp(&t), inp(&t), st_of(Operation::Multiply, vec![0, 1]), st_of(Operation::Multiply, vec![2, 0]), st_of(Operation::Add, vec![3, 4]), st_of(Operation::Multiply, vec![5, 1])];
        }
        7 => {
            // structural operations on an unreshared product
            steps = vec![inp(&array_type(vec![2, n], st)), inp(&array_type(vec![2, n], st)), st_of(Operation::Multiply, vec![0, 1])];
            match rng.below(4) {
                0 => steps.push(st_of(Operation::Sum(vec![0]), vec![2])),
                1 => steps.push(st_of(Operation::CumSum(1), vec![2])),
                2 => steps.push(st_of(Operation::PermuteAxes(vec![1, 0]), vec![2])),
                _ => steps.push(st_of(Operation::Get(vec![1]), vec![2])),
            }
            if rng.chance(1, 2) {
                let k = steps.len() - 1;
                steps.push(st_of(Operation::Multiply, vec![k, k]));
            }
        }
        10 => {
            // constants with identical contents but different shapes, consumed through broadcasting
            let t22 = array_type(vec![2, 2], st);
            let c_row = Operation::Constant(array_type(vec![2], st), enc(&[1, 2], st));
            let c_col = Operation::Constant(array_type(vec![2, 1], st), enc(&[1, 2], st));
            steps = vec![inp(&t22), inp(&t22), st_of(c_row, vec![]), st_of(c_col, vec![]), st_of(Operation::Add, vec![0, 2]), st_of(Operation::Add, vec![1, 3]), st_of(Operation::CreateTuple, vec![4, 5])];
            if rng.chance(1, 2) {
                steps.push(st_of(Operation::Multiply, vec![4, 5]));
            }
        }
        11 => {
            // many operands of mixed privacy: public operands at positions >= 3
            let k = 4 + rng.usize_below(3);
            steps = (0..k).map(|_| inp(&t)).collect();
            let deps: Vec<usize> = (0..k).collect();
            steps.push(match rng.below(4) {
                0 => st_of(Operation::Stack(vec![k as u64]), deps),
                1 => st_of(Operation::Concatenate(0), deps),
                2 => st_of(Operation::CreateTuple, deps),
                _ => st_of(Operation::CreateVector(t.clone()), deps),
            });
        }
        12 => {
            // a small private operand combined with a LARGER public operand (broadcasting), then share-wise operations
            let m = 2 + rng.below(2);
            let big = array_type(vec![m, n], st);
            let op = match rng.below(4) {
                0 => Operation::Add,
                1 | 2 => Operation::Subtract,
                _ => Operation::Multiply,
            };
            let (a, b) = if rng.chance(2, 3) { (0, 1) } else { (1, 0) };
            steps = vec![inp(&t), inp(&big), st_of(op, vec![a, b])];
            match rng.below(4) {
                0 => steps.push(st_of(Operation::Sum(vec![0]), vec![2])),
                1 => steps.push(st_of(Operation::Get(vec![rng.below(m)]), vec![2])),
                2 => steps.push(st_of(Operation::PermuteAxes(vec![1, 0]), vec![2])),
                _ => {}
            }
        }
        13 => {
            // both operand orders of a matrix product on the same operands (commutator)
            let mt = array_type(vec![2, 2], st);
            let op = if rng.chance(1, 2) { Operation::Dot } else { Operation::Matmul };
            steps = vec![inp(&mt), inp(&mt), st_of(op.clone(), vec![0, 1]), st_of(op, vec![1, 0]), st_of(Operation::Subtract, vec![2, 3])];
            if rng.chance(1, 2) {
                steps.push(st_of(Operation::CreateTuple, vec![2, 3]));
            }
        }
        _ => {
            // tuple / vector plumbing around a product
            steps = vec![inp(&t), inp(&t), st_of(Operation::Multiply, vec![0, 1]), st_of(Operation::CreateTuple, vec![2, 0]), st_of(Operation::TupleGet(0), vec![3]), st_of(Operation::Add, vec![4, 1])];
        }
    }
    let output = steps.len() - 1;
    let prog = Prog { graphs: vec![GraphD { steps, output, ..Default::default() }] };
    prog.build().ok()?;
    let its = prog.input_types();
    let mut owners = gen_owners(its.len(), rng);
    if kind == 12 {
        // the small operand is private, the large one public
        owners[0] = *rng.pick(&[Owner::Party(0), Owner::Party(1), Owner::Party(2), Owner::Shared]);
        owners[1] = Owner::Public;
    }
    if kind == 11 {
        for (i, o) in owners.iter_mut().enumerate() {
            *o = if i < 1 + rng.usize_below(2) { Owner::Party(rng.below(3) as u8) } else if rng.chance(2, 3) { Owner::Public } else { *o };
        }
    }
    let outputs = gen_outputs(rng);
    let inline = gen_inline(rng);
    let inputs = gen_inputs(&its, rng);
    Some(Case { prog, owners, outputs, inline, inputs })
}

mod apisim;
mod c03;
mod dsl;
mod exec;
mod gen;
mod gen_tables;
mod refmodels;
mod harness;
mod opt;
mod prfsim;
mod props_tri;
mod rng;
mod sharesim;
mod storesim;
mod wellformed;
mod tri;
mod trisim;
mod vals;

fn main() {
    let args = match harness::parse_args() {
        Ok(a) => a,
        Err(e) => {
            eprintln!("{}", e);
            std::process::exit(2);
        }
    };
    trisim::install_quiet_panic_hook();
    let code = std::panic::catch_unwind(|| dispatch(&args));
    match code {
        Ok(c) => std::process::exit(c),
        Err(_) => {
            eprintln!("harness panic: {}", trisim::take_last_panic());
            std::process::exit(2);
        }
    }
}

fn dispatch(args: &harness::Args) -> i32 {
    if let Some(path) = &args.replay {
        return match args.prop.as_str() {
            "C01" | "C02" | "C05" | "C18" | "C19" => props_tri::replay_cmd(args, path),
            "C03" => c03::replay_cmd(path),
            "C04" | "C06" => opt::replay_cmd(path),
            "C11" => apisim::replay_cmd(path),
            "C12" => storesim::replay_cmd(path),
            "C14" => sharesim::replay_cmd(path),
            "C15" => prfsim::replay_cmd(path),
            p => {
                eprintln!("no replay for {}", p);
                2
            }
        };
    }
    match args.prop.as_str() {
        "C01" => props_tri::run_c01(args),
        "C02" => props_tri::run_c02(args),
        "C03" => c03::run_c03(args),
        "C04" => opt::run_c04(args),
        "C05" => props_tri::run_c05(args),
        "C06" => opt::run_c06(args),
        "C11" => apisim::run_c11(args),
        "C12" => storesim::run_c12(args),
        "C14" => sharesim::run_c14(args),
        "C15" => prfsim::run_c15(args),
        "C18" => props_tri::run_c18(args),
        "C19" => props_tri::run_c19(args),
        p => {
            eprintln!("unknown property/command {}", p);
            2
        }
    }
}

#!/bin/sh
# usage: ./run_all.sh [quick|thorough]  -- runs every claimed check once, prints a summary
TIER=${1:-quick}
cd "$(dirname "$0")"
for id in $(python3 -c "import json;print(' '.join(c['property_id'] for c in json.load(open('MANIFEST.json'))['checks']))"); do
  start=$(date +%s)
  ./check $id $TIER > /tmp/run_all_$id.log 2>&1
  code=$?
  end=$(date +%s)
  echo "$id exit=$code time=$((end-start))s $(grep -c '^VIOLATION' /tmp/run_all_$id.log) violations; $(grep -c '^KNOWN-FINDING' /tmp/run_all_$id.log) known; $(tail -1 /tmp/run_all_$id.log | cut -c1-160)"
done

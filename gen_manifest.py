#!/usr/bin/env python3
"""Regenerates MANIFEST.json from the table below (kept in one place so it stays valid)."""
import json, sys

CLAIMED = {
 "C01": dict(engine="trisim", category="exploration", design_ref="§4 C01",
   text="Seeded search over generated programs x owner vectors x output sets x inline modes x evaluator seeds: the repository's own evaluate_graph on the compiled graph, the lockstep shared-tape three-party control run, and one-party runs in seeded topological orders with evaluator restarts/migration must all return the source graph's value (or three shares summing to it). Evidence by sampling, not proof.",
   note="Trusts: the plaintext evaluation of the source graph as reference; harness value encoding. Compiler-rejected programs are outside the property and skipped (counted).",
   technique="deterministic simulation (fault-free one-party and control configurations of the three-party simulator), seeded program/schedule search"),
 "C02": dict(engine="trisim", category="exploration", design_ref="§4 C02",
   text="Deterministic three-party simulation of the compiled graph with fault injection: each party has its own value store and random tape, junk (zeros/ones/random/poison) for inputs and share slots it does not hold, values cross only at Send NOPs over a simulated transport (delay/reorder/duplicate), seeded schedules (random topological, skewed, PCT), evaluator restarts and migration. Oracle: every output party holds the reference result; shared outputs are consistent between holders and reconstruct.",
   note="Trusts: the stub party runtime written from reference/runtime.md (tied to the implementation by the control-run self-validation); reference = plaintext evaluation of the source graph.",
   technique="deterministic simulation with fault injection (three simulated parties, seeded scheduler, junk/tape/order/restart/network faults)"),
 "C12": dict(engine="storesim", category="fault_enumeration", design_ref="§4 C12",
   text="Writer -> simulated byte store with fault injector -> reader under catch_unwind. Fault-free: serialise twice (same text), round trip deep-equal, well-formed, evaluates identically under one seed, for contexts at every pipeline stage. Faults: every truncation offset and every single-bit flip of texts up to the enumeration limit, plus seeded multi-bit flips, zeroed/duplicated/dropped blocks and structured corruption of the inner payload (version, id tables, dangling dependencies, tree mutation). Oracle: Err, or an Ok context that is well-formed, re-serialisable and evaluable without panic; never a panic.",
   note="Trusts: the well-formedness checker (public getters + serialised finalization flags). Non-UTF-8 bytes are decoded lossily before from_str.",
   technique="deterministic simulation of storage faults (fault enumeration over truncations and bit flips + seeded structured corruption) between serialise and deserialise"),
 "C18": dict(engine="trisim", category="exploration", design_ref="§4 C18",
   text="Seeded tables (1..12 rows, bit keys of width 1..10 incl. odd widths, integer keys of all integer types, heavy key duplication, payload columns of any scalar type/rank) and permutations: plaintext Sort / SortByIntegerKey / ApplyPermutation(+-inverse) against a reference stable sort and permutation model; the compiled forms in the repository's local run and in three-party simulated runs under junk/tape/schedule/restart/network faults.",
   note="Trusts: the 60-line reference stable sort / permutation model written from the Graph::sort documentation; the stub party runtime (see C02).",
   technique="deterministic three-party simulation with fault injection + reference-model oracle (1-party configuration for the plaintext part)"),
 "C19": dict(engine="trisim", category="exploration", design_ref="§4 C19",
   text="Seeded pairs of tables (null rows anywhere, 1..3 key columns of differing scalar types and row shapes, masked key entries, disjoint/partial/heavy overlap, payload columns, null column at any position) x 4 join types x masked/unmasked x owners x outputs: plaintext join against a reference relational join written from the documentation; compiled join in the repository's local run and in three-party simulated runs under junk/tape/schedule/restart/network faults; protocol aborts (cuckoo hashing) are counted, never a wrong table.",
   note="Trusts: the reference join model (written from the documentation of Graph::join / join_with_column_masks); the stub party runtime (see C02).",
   technique="deterministic three-party simulation with fault injection + reference-model oracle"),
 "C05": dict(engine="trisim", category="exploration", design_ref="§4 C05",
   text="One-Truncate and Multiply->Truncate graphs over all 10 integer types, every k in 1..w-2 and non-power-of-two divisors, inputs biased to the boundaries of the documented range, every admissible i8/u8 input for every k (first 24 cases); executed by the repository's local run (3 seeds), one-party scheduled runs and three-party runs with independent tapes, junk, schedules, restarts and network faults. Oracle: result - floor(x/2^k) in {0,1}; general divisor: within one unit, or the documented wrap-around class (counted, not accepted for small inputs on 64/128-bit types); public operands exact.",
   note="Trusts: harness integer arithmetic for the bound; the stub party runtime (see C02). Programs the compiler rejects (general divisor on unsigned types) are skipped and counted.",
   technique="deterministic three-party simulation with fault injection; error-bound oracle over protocol randomness and boundary inputs"),
 "C11": dict(engine="apisim", category="exploration", design_ref="§4 C11",
   text="Histories of 20..120 API calls by interleaved builder clients over the graphs of 1-2 shared contexts, with rejected calls (foreign/unfinalized/younger arguments, type errors, size limits reached through the repository's `fuzzing` feature) as injected faults. Oracles after every call: reference model for mandatory failures; on Err the serialised context is unchanged; a twin context freshly rebuilt from the serialised state must accept/reject the same call and end in the same state with the same node type and id (no ghost names, annotations, type-cache or size-counter state); global well-formedness invariants and model agreement.",
   note="Trusts: the serialised context + public getters as the observable state; whether type inference accepts an operation is taken from the implementation. Built with the repository's existing cargo feature `fuzzing` (smaller size limits) so the post-registration rollback path is reachable; half of the histories never use oversized types.",
   technique="deterministic simulation of interleaved API clients with failing calls as faults; reference model + reload-twin differential after every call"),
 "C14": dict(engine="sharesim", category="exploration", design_ref="§4 C14",
   text="Dealer shares seeded typed values (all 11 scalar types, ragged bit arrays, nested containers) through get_local_shares_for_each_party, ReplicatedShares::secret_share_for_parties and share_vector; the three bundles go to three simulated parties; any one party is lost; the two survivors reconstruct from the slots they are documented to hold. Also: full-tuple reveal, holder agreement per slot, junk third slot is not the true share, and two-world chi-square tests (conservative threshold) of one party's held shares over 40k..400k dealer seeds.",
   note="Trusts: harness modular addition for reconstruction; statistical thresholds with false-alarm probability < e^-40 per test (default seed fixed).",
   technique="deterministic simulation of dealer/three parties with party-loss fault; reconstruction oracle and two-world distribution tests over seeds"),
 "C15": dict(engine="prfsim", category="exploration", design_ref="§4 C15",
   text="Seeded interleavings of PRF / PermutationFromPRF evaluations from a pool of (key, counter, type) triples over 2..4 SimpleEvaluator instances sharing keys, with unrelated Random draws between calls and instance restarts; model = memo table (same triple => same value at every instance, in every order, before and after restart). Every value is a valid encoding (lengths, zero padding bits, true permutations); unrelated triples give different, bitwise-unrelated values; PRNG replays from its seed; bounded draws in range and chi-square uniform.",
   note="Trusts: the memo table as reference (first observed value); statistical thresholds with false-alarm probability < e^-40.",
   technique="deterministic simulation of interleaved evaluator instances with restarts; memo-table reference model"),
 "C04": dict(engine="trisim", category="exploration", design_ref="§4 C04",
   text="Over compiler pipeline outputs (all inline modes, programs biased to OT/mixed multiply, A2B/B2A, sort/permutation, repeatedly inlined Call/Iterate bodies) and generated inlined graphs with Random/PRF/annotated nodes: PRF counters of the final main graph pairwise distinct; the optimiser's old->new mapping is injective on randomising/PRF nodes, keeps their operation, every such output node has exactly one preimage; PRF keys descend from Random/Input, never a constant; and, as invariants of three-party simulated runs, no two distinct nodes query the same (key, counter) at any party and a second tape changes every Random draw.",
   note="Trusts: the returned ContextMappings as the identification of nodes across the optimiser; structural key-provenance walk limited to NOP/tuple plumbing.",
   technique="invariants monitored during deterministic three-party simulation (PRF query log, random-draw log) plus structural checks over the seeded compile/optimise search"),
 "C06": dict(engine="trisim", category="exploration", design_ref="§4 C06",
   text="Twin runs: the unoptimised context U (compiler output before the last optimisation round, or a generated inlined graph decorated with Random/PRF nodes, Send-annotated NOPs, duplicates, foldable constants, tuple plumbing, dangling nodes) and O = optimize_context(U) are executed by the three-party simulator under the same inputs, junk, schedule policy and tapes addressed by original node identity through the returned mapping. Every mapped node carries the same value at every party, outputs are equal, O delivers only messages U delivers, input nodes are identical in number/order/type/name, and every recorded type equals the type re-derived after a serde reload.",
   note="Trusts: addressed tapes (random draws keyed by original node identity) as the meaning of 'the same random draws'; the stub party runtime (see C02).",
   technique="deterministic three-party simulation, differential twin runs (unoptimised vs optimised) under replayed tapes, junk and schedules"),
 "C03": dict(engine="trisim", category="exploration", design_ref="§4 C03",
   text="Exact mode: for seeded bit-typed micro programs (owners incl. shared, all output sets) the PRF is idealised inside the simulator (symbolic keys, one tape slot per (key, counter)); per observer the live tape bits are found by a sound structural taint analysis and EVERY tape is enumerated for EVERY input assignment; the multisets of the observer's view (messages received, held shares, own correlated randomness, output) are compared exactly between assignments that agree on the observer's inputs and output. Sampled mode: 8..64-bit programs (multiply chains, oblivious transfer, truncation, A2B) under the real AES PRF, thousands of tapes per world, conservative two-sample chi-square on byte projections of every value the observer holds.",
   note="Trusts: the idealised-oracle substitution (PRF outputs for distinct (key, counter) are independent uniform); keys are symbolic so key bits are not part of the compared view; the observer supplies zeros for what it does not hold. Sampled mode finds gross leaks only; Join is excluded (reveals OPRF images by design).",
   technique="deterministic three-party simulation recording per-party views; exhaustive enumeration of random tapes on micro programs inside a seeded search; statistical two-world comparison otherwise"),
}

NOT_YET = {
 # filled while the corresponding engines are being built; see DESIGN.md §0
}

NA = {
 "C07": "inlining is a pure graph->graph function compared against native Call/Iterate evaluation; no schedule, fault, clock or party is involved (DESIGN §5)",
 "C08": "custom-operation instantiation is a pure function of the context; collisions depend on names and argument types, not on any interleaving or fault (DESIGN §5)",
 "C09": "type soundness / panic freedom are properties of (program, input) pairs; a pure function of the input, not a simulation target (DESIGN §5)",
 "C10": "primitive operation semantics are pure functions of operands and parameters (DESIGN §5)",
 "C13": "value encoding and JSON round trip are pure functions of integers and types (DESIGN §5)",
 "C16": "comparison circuits are pure functions of operands and width (DESIGN §5)",
 "C17": "adder, multiplexer, clip, long division are pure functions of operands and width (DESIGN §5)",
 "C20": "numerical approximation error is a pure function of the input grid; the compiled-vs-plaintext clause reduces to C01 + C05 (DESIGN §5)",
}

PLANNED = ["C03","C04","C05","C06","C11","C12","C14","C15","C18","C19"]

def main():
    checks=[]
    for pid in sorted(CLAIMED):
        c=CLAIMED[pid]
        checks.append({
          "property_id": pid,
          "quick_cmd": f"./check {pid} quick",
          "thorough_cmd": f"./check {pid} thorough",
          "evidence_file": f"/verif/evidence/{pid}.json",
          "replay_cmd_template": f"./check {pid} --replay {{path}}",
          "engine": c["engine"],
          "level_claimed": {"category": c["category"], "text": c["text"], "design_ref": c["design_ref"]},
          "level_note": c["note"],
          "technique": c["technique"],
        })
    na=[{"property_id":k,"reason":v} for k,v in sorted(NA.items())]
    for p in PLANNED:
        if p not in CLAIMED:
            na.append({"property_id":p,"reason":"not claimed yet: the simulation check for this property (DESIGN §4) is not built at this commit"})
    na.sort(key=lambda x:x["property_id"])
    engines={}
    for pid,c in CLAIMED.items():
        engines.setdefault(c["engine"],[]).append(pid)
    m={
      "version":1,
      "setup_cmd":"cd /verif/sim && CARGO_NET_OFFLINE=true CARGO_TARGET_DIR=/verif/target cargo build --release --offline && CARGO_NET_OFFLINE=true CARGO_TARGET_DIR=/verif/target-fuzzing cargo build --release --offline --features fuzzing && cd /repo/ciphercore-base && CARGO_NET_OFFLINE=true CARGO_TARGET_DIR=/verif/target/bins cargo build --release --offline --bin ciphercore_split_parties",
      "hooks":{
        "guard":"ciphercore_verif (unused: no hook was needed; seams are the Evaluator trait, SimpleEvaluator::new(Some(seed)) and the existing cargo features `fuzzing` and `stderr-to-log`)",
        "enable":"none needed; the simulator crate /verif/sim depends on /repo/ciphercore-base by path and is rebuilt by ./check on every run",
        "baseline_off_cmd":"cd /repo && cargo test --workspace --no-fail-fast --offline",
        "source_commits":[],
        "add_only":True
      },
      "engines":[{"name":k,"path":"/verif/sim","serves_properties":sorted(v),"kind_free_text":ENGINE_TEXT.get(k,"")} for k,v in sorted(engines.items())],
      "checks":checks,
      "not_applicable":na,
      "notes":"All checks: ./check <id> quick|thorough [--seed N]; exit 0 held / 1 VIOLATION / 2 harness error. VERIF_SEED honoured; default seed fixed. Replays under /verif/replays. Known findings and fixed defects: /verif/known_findings.json."
    }
    json.dump(m, open("/verif/MANIFEST.json","w"), indent=1)
    print("MANIFEST.json written:", len(checks), "checks,", len(na), "not applicable")

ENGINE_TEXT={
 "trisim":"deterministic three-party simulator: real SimpleEvaluator::evaluate_node per node per party, stub party runtime/transport/scheduler, seeded faults (junk, tapes, order, restart, migrate, net)",
 "apisim":"interleaved builder clients against shared contexts with failing calls as faults; reference model of a context",
 "storesim":"serialise -> simulated byte store with fault injector -> deserialise under catch_unwind",
 "sharesim":"dealer, three parties, loss of one party, distribution over seeds",
 "prfsim":"interleaved PRF calls across evaluator instances with restarts; memo-table model",
}
main()

#!/usr/bin/env python3
"""Runs the repository's test suite (guard off: there is none) and compares with BASELINE.json's stable_pass list."""
import json, subprocess, sys, re
log = sys.argv[1] if len(sys.argv) > 1 else None
if log is None:
    p = subprocess.run("cd /repo && cargo test --workspace --no-fail-fast --offline 2>&1", shell=True, capture_output=True, text=True)
    out = p.stdout
else:
    out = open(log).read()
base = json.load(open('/root/.vp/BASELINE.json'))['stable_pass']
ok = set(); bad = set()
for m in re.finditer(r"^test (\S+)(?: - should panic)? \.\.\. (\w+)", out, re.M):
    (ok if m.group(2) == 'ok' else bad).add(m.group(1))
missing = []
for name in base:
    short = name.split('::', 1)[1]
    if short not in ok:
        missing.append(name)
print(f"baseline tests: {len(base)}; passing now: {len(base)-len(missing)}; not passing: {len(missing)}")
for m in missing[:20]:
    print("  NOT PASSING:", m)
sys.exit(1 if missing else 0)

#!/bin/sh
# usage: [SEEDED_TAG=x] [SEEDED_VERIF=/path/to/verif-checkout] seeded_run.sh <patch.diff> <check-id> [more ids]   (development aid)
# Applies a seeded change to a persistent scratch worktree of /repo (never to /repo), runs the quick checks
# against it (VERIF_REPO mode of ./check), prints the verdict and resets the worktree.
PATCH=$(readlink -f "$1"); shift
TAG=${SEEDED_TAG:-}
VD=${SEEDED_VERIF:-/verif}
WT=/tmp/seeded_wt$TAG
if [ ! -d $WT ]; then git -C /repo worktree add -q --detach $WT HEAD || exit 2; fi
git -C $WT checkout -q --detach $(git -C /repo rev-parse HEAD) 2>/dev/null
git -C $WT checkout -q -- . ; git -C $WT clean -fdq
if ! git -C $WT apply "$PATCH"; then echo "PATCH DOES NOT APPLY"; exit 2; fi
for id in "$@"; do
  rm -rf /tmp/seeded_replays$TAG; 
  VERIF_REPO=$WT $VD/check $id quick $SEEDED_EXTRA --evidence /tmp/seeded_ev$TAG.json --replay-dir /tmp/seeded_replays$TAG > /tmp/seeded_out$TAG.log 2>&1
  code=$?
  echo "$id exit=$code $(grep -m1 -A1 '^VIOLATION' /tmp/seeded_out$TAG.log | tr '\n' ' ' | cut -c1-300) $(grep -m1 'HARNESS-ERROR' /tmp/seeded_out$TAG.log | cut -c1-200)"
done
git -C $WT checkout -q -- . ; git -C $WT clean -fdq

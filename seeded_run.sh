#!/bin/sh
# usage: seeded_run.sh <patch.diff> <check-id> [more ids]   (development aid)
# Applies a seeded change to a persistent scratch worktree of /repo (never to /repo), runs the quick checks
# against it (VERIF_REPO mode of ./check), prints the verdict and resets the worktree.
PATCH=$(readlink -f "$1"); shift
WT=/tmp/seeded_wt
if [ ! -d $WT ]; then git -C /repo worktree add -q --detach $WT HEAD || exit 2; fi
git -C $WT checkout -q --detach $(git -C /repo rev-parse HEAD) 2>/dev/null
git -C $WT checkout -q -- . ; git -C $WT clean -fdq
if ! git -C $WT apply "$PATCH"; then echo "PATCH DOES NOT APPLY"; exit 2; fi
for id in "$@"; do
  rm -rf /tmp/seeded_replays; 
  VERIF_REPO=$WT /verif/check $id quick --evidence /tmp/seeded_ev.json --replay-dir /tmp/seeded_replays > /tmp/seeded_out.log 2>&1
  code=$?
  echo "$id exit=$code $(grep -m1 -A1 '^VIOLATION' /tmp/seeded_out.log | tr '\n' ' ' | cut -c1-300) $(grep -m1 'HARNESS-ERROR' /tmp/seeded_out.log | cut -c1-200)"
done
git -C $WT checkout -q -- . ; git -C $WT clean -fdq

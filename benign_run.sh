#!/bin/sh
# usage: [SEEDED_TAG=x] benign_run.sh <patch.diff> [ids...]   (development aid)
# Applies a property-PRESERVING change to a scratch worktree of /repo (never to /repo) and runs the quick checks
# against it: every check must exit 0 (a VIOLATION here is a false alarm of the machinery).
PATCH=$(readlink -f "$1"); shift
IDS=${@:-C01 C02 C03 C04 C05 C06 C11 C12 C14 C15 C18 C19}
for id in $IDS; do
  echo "$(SEEDED_TAG=${SEEDED_TAG:-bn} /verif/seeded_run.sh $PATCH $id | tail -1 | cut -c1-400)"
done

#!/bin/sh
# usage: confirm_mutant.sh <worktree> <mutant-dir>   (development aid)
# Confirms in a scratch worktree that a seeded change (a) builds, (b) keeps the repository's suite green,
# (c) makes its demonstration fail, and that the demonstration passes without the change.
WT=$1; M=$(readlink -f $2)
cd $WT || exit 2
git checkout -q -- . ; git clean -fdq -e target
DEMO=$(ls $M/demo.rs 2>/dev/null)
[ -z "$DEMO" ] && { echo "RESULT $M no demo.rs"; exit 2; }
git apply $M/patch.diff || { echo "RESULT $M patch does not apply"; exit 2; }
# the demonstration is either an integration test (tests/) or an example binary (examples/), as its header says
if head -30 $DEMO | grep -q "examples/"; then KIND=example; else KIND=test; fi
run_demo() {
  if [ $KIND = example ]; then
    mkdir -p ciphercore-base/examples; cp $DEMO ciphercore-base/examples/seeded_demo.rs
    cargo run -p ciphercore-base --example seeded_demo --offline > $1 2>&1; R=$?
    rm -f ciphercore-base/examples/seeded_demo.rs
  else
    mkdir -p ciphercore-base/tests; cp $DEMO ciphercore-base/tests/seeded_demo.rs
    cargo test -p ciphercore-base --test seeded_demo --offline > $1 2>&1; R=$?
    rm -f ciphercore-base/tests/seeded_demo.rs
  fi
  return $R
}
run_demo $M/confirm_demo_with.log; D1=$?
cargo test --workspace --lib --no-fail-fast --offline > $M/confirm_suite_with.log 2>&1
python3 /verif/baseline_check.py $M/confirm_suite_with.log > $M/confirm_suite_with.sum 2>&1; S=$?
git checkout -q -- .
run_demo $M/confirm_demo_without.log; D0=$?
git checkout -q -- . ; git clean -fdq -e target
echo "RESULT $M demo_with_change_exit=$D1 suite_ok_exit=$S demo_without_change_exit=$D0 $(cat $M/confirm_suite_with.sum | head -1)"
